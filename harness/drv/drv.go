// Package drv is the worker-side runtime shared by all monitors: deterministic case
// enumeration, per-case PRNGs, violation/replay records, evidence counters.
package drv

import (
	"crypto/sha256"
	"encoding/binary"
	"encoding/hex"
	"encoding/json"
	"fmt"
	"math/rand"
	"os"
	"path/filepath"
	"runtime/debug"
	"sort"
	"strings"
	"sync"
	"time"
)

// Violation is one refutation of a property, with everything needed to replay it.
type Violation struct {
	Property  string                 `json:"property"`
	Check     string                 `json:"check"`
	Stage     string                 `json:"stage"`
	Index     int64                  `json:"index"`
	Seed      int64                  `json:"seed"`
	Tier      string                 `json:"tier"`
	Flavour   string                 `json:"flavour"`
	Signature map[string]interface{} `json:"signature"`
	Detail    map[string]interface{} `json:"detail"`
	Replay    string                 `json:"replay,omitempty"`
}

// Result is what a worker hands to the driver.
type Result struct {
	Property   string           `json:"property"`
	Flavour    string           `json:"flavour"`
	Shard      int              `json:"shard"`
	NShards    int              `json:"nshards"`
	Evals      int64            `json:"evals"`
	Nontrivial int64            `json:"nontrivial_local"`
	Obs        map[string]int64 `json:"obs"`
	DontCare   map[string]int64 `json:"dontcare"`
	Samples    []interface{}    `json:"samples"`
	Violations []Violation      `json:"violations"`
	NViol      int64            `json:"nviol"`
	Exhaustive []string         `json:"exhaustive_stages"`
	Stages     map[string]int64 `json:"stages"`
	Done       bool             `json:"done"`
	// Watchdogs lists operations that did not return within their (generous, wall-clock) bound: the run is
	// inconclusive for them, never a violation.
	Watchdogs []string `json:"watchdogs,omitempty"`
}

// Ctx is the per-worker context.
type Ctx struct {
	Prop    string
	Tier    string
	Seed    int64
	Flavour string
	Shard   int
	NShards int
	WorkDir string

	OnlyStage string // replay mode
	OnlyIndex int64
	Verbose   bool

	mu       sync.Mutex
	res      Result
	distinct map[uint64]struct{}
	sidecar  *os.File
	sigSeen  map[string]bool
}

const maxDistinct = 4 << 20
const maxViolations = 12
const maxSamples = 6

func NewCtx(prop, tier string, seed int64, flavour string, shard, nshards int, workdir string) *Ctx {
	c := &Ctx{Prop: prop, Tier: tier, Seed: seed, Flavour: flavour, Shard: shard, NShards: nshards, WorkDir: workdir, OnlyIndex: -1}
	c.res = Result{Property: prop, Flavour: flavour, Shard: shard, NShards: nshards, Obs: map[string]int64{}, DontCare: map[string]int64{}, Stages: map[string]int64{}}
	c.distinct = map[uint64]struct{}{}
	c.sigSeen = map[string]bool{}
	if workdir != "" {
		f, err := os.OpenFile(filepath.Join(workdir, fmt.Sprintf("%s-%d.cur", flavour, shard)), os.O_CREATE|os.O_RDWR|os.O_TRUNC, 0o644)
		if err == nil {
			c.sidecar = f
		}
	}
	return c
}

func (c *Ctx) Quick() bool    { return c.Tier != "thorough" }
func (c *Ctx) Thorough() bool { return c.Tier == "thorough" }

// Slow reports whether this worker is an instrumented build that runs 5-15x slower
// (race detector, ASan): such workers take a reduced share of the randomised workloads.
func (c *Ctx) Slow() bool {
	switch c.Flavour {
	case "race", "asan", "yield", "go126-race", "checkptr", "gcstress":
		return true
	}
	return false
}

// Pick returns q in the quick tier and t in the thorough tier. Case counts (values >= 1000) are
// reduced for slow instrumented builds; small values (bounds, lengths) are returned unchanged.
func (c *Ctx) Pick(q, t int64) int64 {
	v := q
	if c.Thorough() {
		v = t
	}
	if c.Slow() && v >= 1000 {
		if c.Thorough() {
			v = t / 16
			if v < q/2 {
				v = q / 2
			}
		} else {
			v = q / 4
		}
		if v < 500 {
			v = 500
		}
	}
	return v
}

func mix(seed int64, parts ...string) int64 {
	h := sha256.New()
	var b [8]byte
	binary.LittleEndian.PutUint64(b[:], uint64(seed))
	h.Write(b[:])
	for _, p := range parts {
		h.Write([]byte(p))
		h.Write([]byte{0})
	}
	s := h.Sum(nil)
	return int64(binary.LittleEndian.Uint64(s[:8]) & 0x7fffffffffffffff)
}

// splitmix64 based source: cheap to seed (math/rand's default source costs ~10us to seed).
type smSource struct{ s uint64 }

func (s *smSource) Uint64() uint64 {
	s.s += 0x9e3779b97f4a7c15
	z := s.s
	z = (z ^ (z >> 30)) * 0xbf58476d1ce4e5b9
	z = (z ^ (z >> 27)) * 0x94d049bb133111eb
	return z ^ (z >> 31)
}
func (s *smSource) Int63() int64    { return int64(s.Uint64() >> 1) }
func (s *smSource) Seed(seed int64) { s.s = uint64(seed) }

// NewRand returns a deterministic PRNG.
func NewRand(seed int64) *rand.Rand { return rand.New(&smSource{s: uint64(seed)}) }

// Case is one generated case.
type Case struct {
	C     *Ctx
	Stage string
	Idx   int64
	R     *rand.Rand
	// Desc is filled by the monitor: the concrete case (goes into replay files and samples).
	Desc map[string]interface{}
	// trace of events of doubles (bounded)
	Trace []string
}

func (cs *Case) Tracef(format string, a ...interface{}) {
	if len(cs.Trace) < 200 {
		cs.Trace = append(cs.Trace, fmt.Sprintf(format, a...))
	}
}

// Stage enumerates cases 0..n-1 of the named stage; this worker executes those with
// idx % NShards == Shard. Each case gets its own PRNG derived from (seed, prop, stage, idx),
// so a single case can be re-executed in isolation.
func (c *Ctx) Stage(name string, n int64, exhaustive bool, f func(cs *Case)) {
	if c.OnlyStage != "" && c.OnlyStage != name {
		return
	}
	base := mix(c.Seed, c.Prop, name)
	if exhaustive {
		// exhaustive stages do not depend on the seed for *which* cases exist, but the
		// per-case PRNG (used for incidental choices) still does.
		c.mu.Lock()
		c.res.Exhaustive = append(c.res.Exhaustive, name)
		c.mu.Unlock()
	}
	var ran int64
	first, step := int64(c.Shard), int64(c.NShards)
	if c.OnlyIndex >= 0 {
		first, step = c.OnlyIndex, n+1
	}
	for i := first; i < n; i += step {
		c.markCurrent(name, i)
		cs := &Case{C: c, Stage: name, Idx: i, R: NewRand(base ^ (i+1)*0x5851f42d4c957f2d)}
		c.runCase(cs, f)
		ran++
	}
	c.mu.Lock()
	c.res.Stages[name] += ran
	c.mu.Unlock()
}

func (c *Ctx) markCurrent(stage string, idx int64) {
	if c.sidecar == nil {
		return
	}
	var b [64]byte
	s := fmt.Sprintf("%s %d\n", stage, idx)
	copy(b[:], s)
	for i := len(s); i < len(b); i++ {
		b[i] = ' '
	}
	c.sidecar.WriteAt(b[:], 0)
}

func (c *Ctx) runCase(cs *Case, f func(cs *Case)) {
	defer func() {
		if r := recover(); r != nil {
			st := string(debug.Stack())
			if len(st) > 6000 {
				st = st[:6000]
			}
			msg := fmt.Sprint(r)
			cs.Fail("panic", map[string]interface{}{"panic": trimAddr(msg)}, map[string]interface{}{"panic": msg, "stack": st})
		}
	}()
	// a case is short (the whole quick check of a property takes about a minute); one that has not finished
	// after caseBound is a call into the library that does not return. The case keeps its goroutine (guard-page
	// faults are recovered per goroutine), so the watchdog can only end the worker: the driver reports the dead
	// worker as a violation at this case.
	bound := 300 * time.Second
	if c.Tier == "thorough" {
		bound = 1800 * time.Second
	}
	stage, idx := cs.Stage, cs.Idx
	wd := time.AfterFunc(bound, func() {
		fmt.Fprintf(os.Stderr, "\nfatal: case did not return within %v: stage %s index %d\n", bound, stage, idx)
		os.Exit(97)
	})
	f(cs)
	wd.Stop()
	c.mu.Lock()
	c.res.Evals++
	if cs.Desc != nil && len(c.res.Samples) < 2 {
		c.res.Samples = append(c.res.Samples, map[string]interface{}{"stage": cs.Stage, "index": cs.Idx, "case": cs.Desc})
	}
	c.mu.Unlock()
}

// trimAddr removes hex addresses so that signatures of identical panics coincide.
func trimAddr(s string) string {
	out := []byte{}
	for i := 0; i < len(s); i++ {
		if s[i] == '0' && i+1 < len(s) && s[i+1] == 'x' {
			j := i + 2
			for j < len(s) && strings.IndexByte("0123456789abcdefABCDEF", s[j]) >= 0 {
				j++
			}
			out = append(out, "0x?"...)
			i = j - 1
			continue
		}
		out = append(out, s[i])
	}
	if len(out) > 160 {
		out = out[:160]
	}
	return string(out)
}

// Count registers a case for the evidence: nontrivial says whether it satisfies the
// property's non-triviality rule, key is the canonical descriptor used for distinctness.
func (cs *Case) Count(nontrivial bool, key ...interface{}) {
	if !nontrivial {
		return
	}
	h := sha256.New()
	fmt.Fprint(h, key...)
	s := h.Sum(nil)
	k := binary.LittleEndian.Uint64(s[:8])
	c := cs.C
	c.mu.Lock()
	if len(c.distinct) < maxDistinct {
		c.distinct[k] = struct{}{}
	}
	c.mu.Unlock()
}

// Obs adds to an observation counter.
func (c *Ctx) Obs(name string, d int64) {
	c.mu.Lock()
	c.res.Obs[name] += d
	c.mu.Unlock()
}

// Bounded runs f and waits for it for at most limit (a generous wall-clock bound around an operation that
// needs no time at all on correct code). It returns false when f has not returned by then: the goroutine
// is abandoned and the worker goes on; what the expiry means is the caller's decision.
func (c *Ctx) Bounded(limit time.Duration, what string, f func()) (returned bool, panicked interface{}) {
	done := make(chan interface{}, 1)
	go func() {
		defer func() { done <- recover() }()
		debug.SetPanicOnFault(true) // per goroutine: guard-page faults stay recoverable here too
		f()
	}()
	t := time.NewTimer(limit)
	defer t.Stop()
	select {
	case p := <-done:
		return true, p
	case <-t.C:
		return false, nil
	}
}

// Inconclusive records that something could not be judged (reported by the driver, exit code 2 unless a
// violation was found as well).
func (c *Ctx) Inconclusive(what string) {
	c.mu.Lock()
	if len(c.res.Watchdogs) < 20 {
		c.res.Watchdogs = append(c.res.Watchdogs, what)
	}
	c.mu.Unlock()
}

// ObsMax keeps the maximum.
func (c *Ctx) ObsMax(name string, v int64) {
	c.mu.Lock()
	if c.res.Obs[name] < v {
		c.res.Obs[name] = v
	}
	c.mu.Unlock()
}

// DontCare records a case that fell in a don't-care zone.
func (c *Ctx) DontCare(name string) {
	c.mu.Lock()
	c.res.DontCare[name]++
	c.mu.Unlock()
}

// Sample stores a literal case for the evidence file (first few only).
func (cs *Case) Sample(v interface{}) {
	c := cs.C
	c.mu.Lock()
	if len(c.res.Samples) < maxSamples {
		c.res.Samples = append(c.res.Samples, map[string]interface{}{"stage": cs.Stage, "index": cs.Idx, "case": v})
	}
	c.mu.Unlock()
}

func (cs *Case) WantSample() bool {
	c := cs.C
	c.mu.Lock()
	defer c.mu.Unlock()
	return len(c.res.Samples) < maxSamples
}

// Fail records a violation. sig identifies the failure class (used for de-duplication and
// for matching known findings); detail carries expected/observed.
func (cs *Case) Fail(check string, sig map[string]interface{}, detail map[string]interface{}) {
	c := cs.C
	if sig == nil {
		sig = map[string]interface{}{}
	}
	sig["check"] = check
	if detail == nil {
		detail = map[string]interface{}{}
	}
	if cs.Desc != nil {
		detail["case"] = cs.Desc
	}
	if len(cs.Trace) > 0 {
		detail["trace"] = cs.Trace
	}
	sk := sigKey(sig)
	c.mu.Lock()
	defer c.mu.Unlock()
	c.res.NViol++
	if c.sigSeen[sk] || len(c.res.Violations) >= maxViolations {
		return
	}
	c.sigSeen[sk] = true
	v := Violation{Property: c.Prop, Check: check, Stage: cs.Stage, Index: cs.Idx, Seed: c.Seed, Tier: c.Tier, Flavour: c.Flavour, Signature: sig, Detail: detail}
	c.res.Violations = append(c.res.Violations, v)
	if c.Verbose {
		b, _ := json.MarshalIndent(v, "", " ")
		fmt.Fprintf(os.Stderr, "violation: %s\n", b)
	}
}

func sigKey(sig map[string]interface{}) string {
	keys := make([]string, 0, len(sig))
	for k := range sig {
		keys = append(keys, k)
	}
	sort.Strings(keys)
	var sb strings.Builder
	for _, k := range keys {
		fmt.Fprintf(&sb, "%s=%v;", k, sig[k])
	}
	return sb.String()
}

// SigKey is exported for the driver.
func SigKey(sig map[string]interface{}) string { return sigKey(sig) }

// Finish writes the result and the distinct-hash set.
func (c *Ctx) Finish() error {
	c.mu.Lock()
	defer c.mu.Unlock()
	c.res.Done = true
	c.res.Nontrivial = int64(len(c.distinct))
	if c.WorkDir == "" {
		b, _ := json.MarshalIndent(c.res, "", " ")
		fmt.Println(string(b))
		return nil
	}
	base := filepath.Join(c.WorkDir, fmt.Sprintf("%s-%d", c.Flavour, c.Shard))
	hb := make([]byte, 0, 8*len(c.distinct))
	var t [8]byte
	for k := range c.distinct {
		binary.LittleEndian.PutUint64(t[:], k)
		hb = append(hb, t[:]...)
	}
	if err := os.WriteFile(base+".hashes", hb, 0o644); err != nil {
		return err
	}
	b, err := json.Marshal(c.res)
	if err != nil {
		return err
	}
	return os.WriteFile(base+".result.json", b, 0o644)
}

func (c *Ctx) Result() *Result { return &c.res }

// Hex renders bytes for descriptors, truncated in the middle when long.
func Hex(b []byte) string {
	if len(b) <= 96 {
		return hex.EncodeToString(b)
	}
	return fmt.Sprintf("%s...(%d bytes)...%s", hex.EncodeToString(b[:40]), len(b), hex.EncodeToString(b[len(b)-24:]))
}

// FullHex renders bytes up to 4 KiB fully (for replay files).
func FullHex(b []byte) string {
	if len(b) <= 4096 {
		return hex.EncodeToString(b)
	}
	return Hex(b)
}

// Monitor is a property monitor entry point.
type Monitor func(c *Ctx)

var registry = map[string]Monitor{}

func Register(prop string, m Monitor) { registry[prop] = m }
func Lookup(prop string) Monitor      { return registry[prop] }
func Props() []string {
	var out []string
	for k := range registry {
		out = append(out, k)
	}
	sort.Strings(out)
	return out
}
