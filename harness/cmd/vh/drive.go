package main

import (
	"bytes"
	"crypto/sha256"
	"encoding/binary"
	"encoding/hex"
	"encoding/json"
	"flag"
	"fmt"
	"os"
	"os/exec"
	"path/filepath"
	"regexp"
	"sort"
	"strconv"
	"strings"
	"sync"
	"syscall"
	"time"

	"verifharness/drv"
)

// verifRoot is the directory holding run.sh (VERIF_ROOT is exported by run.sh so that a snapshot
// of /verif elsewhere on disk works on its own files).
var verifRoot = func() string {
	if p := os.Getenv("VERIF_ROOT"); p != "" {
		return p
	}
	return "/verif"
}()

type job struct {
	Flavour string
	Shards  int
}

type flavourDef struct {
	bin   string
	build []string // extra go build args
	goBin string   // "go" or "go1.26.8"
}

var flavours = map[string]flavourDef{
	"plain":      {"vh", nil, "go"},
	"race":       {"vh-race", []string{"-race"}, "go"},
	"asan":       {"vh-asan", []string{"-asan"}, "go"},
	"poison":     {"vh-poison", []string{"-tags", "poisonshim"}, "go"},
	"yield":      {"vh-yield", []string{"-race"}, "go"},
	"checkptr":   {"vh-checkptr", []string{"-gcflags=all=-d=checkptr"}, "go"},
	"go126":      {"vh-go126", nil, "go1.26.8"},
	"go126-race": {"vh-go126-race", []string{"-race"}, "go1.26.8"},
	// the plain build run with GOGC=1 (a collection after almost every allocation: object pools are emptied
	// all the time, goroutine stacks are shrunk and moved at collections) and GODEBUG=clobberfree=1 (the
	// collector overwrites every object it frees, so memory that is still in use through a pointer the
	// collector cannot see - a uintptr, a forged slice header - changes under its user)
	"gcstress": {"vh-gcstress", nil, "go"},
	// the library's observation hooks (build tag verif, see MANIFEST.hooks) compiled in
	"hooks": {"vh-hooks", []string{"-tags", "verif"}, "go"},
}

func harnessDir() string { return filepath.Join(verifRoot, "harness") }
func binDir() string     { return filepath.Join(verifRoot, ".work", "bin") }

func goEnv() []string {
	env := os.Environ()
	env = append(env, "GOFLAGS=-mod=mod", "GOPROXY=off", "GOSUMDB=off", "GOTOOLCHAIN=local", "CGO_ENABLED=1")
	return env
}

// repoPath is the tree under test: /repo, or a scratch copy when VERIF_REPO is set (self-tests only).
func repoPath() string {
	if p := os.Getenv("VERIF_REPO"); p != "" {
		return p
	}
	return "/repo"
}

// writeModfile generates the go.mod variant for a flavour: the harness go.mod with the
// replace target of cloudwego/gopkg set to repoPath() and, for shim flavours, the
// bytedance/gopkg dependency replaced by the instrumented copy.
func writeModfile(fl string) (string, error) {
	base, err := os.ReadFile(filepath.Join(harnessDir(), "go.mod"))
	if err != nil {
		return "", err
	}
	txt := strings.Replace(string(base), "replace github.com/cloudwego/gopkg => /repo", "replace github.com/cloudwego/gopkg => "+repoPath(), 1)
	switch fl {
	case "poison":
		txt += "\nreplace github.com/bytedance/gopkg => " + filepath.Join(verifRoot, "shim", "gopkg-poison") + "\n"
	case "yield":
		txt += "\nreplace github.com/bytedance/gopkg => " + filepath.Join(verifRoot, "shim", "gopkg-yield") + "\n"
	}
	dir := filepath.Join(verifRoot, ".work", "mods", fmt.Sprint(os.Getpid()))
	os.MkdirAll(dir, 0o755)
	mf := filepath.Join(dir, "go."+fl+".mod")
	if err := os.WriteFile(mf, []byte(txt), 0o644); err != nil {
		return "", err
	}
	sum, _ := os.ReadFile(filepath.Join(harnessDir(), "go.sum"))
	os.WriteFile(filepath.Join(dir, "go."+fl+".sum"), sum, 0o644)
	return mf, nil
}

// writeOverlay regenerates the legacy (pre-go1.21) unsafex variant from the tree under test and
// returns a go build overlay that puts it in place of the stub in mon/legacyunsafex.
// legacyFallback is set when the stripped copy of the pre-go1.21 file did not compile on its own (it refers to
// something defined in another file of the package): the "legacy" variant then forwards to the compiled one.
var legacyFallback bool

func writeOverlay() (string, error) {
	src, err := os.ReadFile(filepath.Join(repoPath(), "unsafex", "unsafex_go100.go"))
	if err != nil || legacyFallback {
		// the tree has no separate pre-go1.21 file (any more): the "legacy" variant degrades to the
		// compiled one, so the check still runs instead of failing to build
		src = []byte("package legacyunsafex\n\nimport \"github.com/cloudwego/gopkg/unsafex\"\n\nfunc BinaryToString(b []byte) string { return unsafex.BinaryToString(b) }\nfunc StringToBinary(s string) []byte { return unsafex.StringToBinary(s) }\n")
	}
	var out []string
	for _, l := range strings.Split(string(src), "\n") {
		if strings.HasPrefix(l, "//go:build") || strings.HasPrefix(l, "// +build") {
			continue
		}
		if strings.HasPrefix(l, "package ") {
			l = "package legacyunsafex"
		}
		out = append(out, l)
	}
	dir := filepath.Join(verifRoot, ".work", "mods", fmt.Sprint(os.Getpid()))
	os.MkdirAll(dir, 0o755)
	gen := filepath.Join(dir, "legacy_gen.go")
	if err := os.WriteFile(gen, []byte(strings.Join(out, "\n")), 0o644); err != nil {
		return "", err
	}
	ov := map[string]map[string]string{"Replace": {filepath.Join(harnessDir(), "mon", "legacyunsafex", "legacy_stub.go"): gen}}
	b, _ := json.Marshal(ov)
	p := filepath.Join(dir, "overlay.json")
	return p, os.WriteFile(p, b, 0o644)
}

func buildFlavour(fl string) (string, error) {
	def, ok := flavours[fl]
	if !ok {
		return "", fmt.Errorf("unknown flavour %s", fl)
	}
	// binaries are per driver process: parallel invocations (and self-tests on scratch trees) never share one
	out := filepath.Join(binDir(), fmt.Sprintf("%s-%d", def.bin, os.Getpid()))
	mf, err := writeModfile(fl)
	if err != nil {
		return "", err
	}
	ov, err := writeOverlay()
	if err != nil {
		return "", err
	}
	args := []string{"build", "-modfile=" + mf, "-overlay=" + ov}
	args = append(args, def.build...)
	if os.Getenv("VERIF_COVER") != "" && fl == "plain" {
		// reach measurement (selftest/coverage.sh): statement coverage of the library under the monitors
		args = append(args, "-cover", "-coverpkg=github.com/cloudwego/gopkg/...,verifharness/cmd/vh")
	}
	args = append(args, "-o", out, "./cmd/vh")
	cmd := exec.Command(def.goBin, args...)
	cmd.Dir = harnessDir()
	cmd.Env = goEnv()
	var buf bytes.Buffer
	cmd.Stdout, cmd.Stderr = &buf, &buf
	if err := cmd.Run(); err != nil {
		if !legacyFallback && strings.Contains(buf.String(), "legacy_gen.go") {
			// the observation file injected for the legacy unsafex variant no longer compiles against this tree:
			// that observation degrades to "unavailable" (forwarding stub) instead of failing the check
			legacyFallback = true
			return buildFlavour(fl)
		}
		return "", fmt.Errorf("build %s failed: %v\n%s", fl, err, buf.String())
	}
	return out, nil
}

type workerRun struct {
	job      job
	shard    int
	bin      string
	exitErr  error
	timedOut bool
	oomKill  bool
	stderr   string
	res      *drv.Result
	hashes   []byte
	cur      string
}

type knownFinding struct {
	Status    string                 `json:"status"`
	Property  string                 `json:"property"`
	Commit    string                 `json:"commit,omitempty"`
	What      string                 `json:"what"`
	Signature map[string]interface{} `json:"signature,omitempty"`
}

func loadKnown() []knownFinding {
	b, err := os.ReadFile(filepath.Join(verifRoot, "known_findings.json"))
	if err != nil {
		return nil
	}
	var f struct {
		Findings []knownFinding `json:"findings"`
	}
	if json.Unmarshal(b, &f) != nil {
		return nil
	}
	return f.Findings
}

func matchKnown(kf []knownFinding, v drv.Violation) *knownFinding {
	for i := range kf {
		k := &kf[i]
		if k.Status != "known" || k.Property != v.Property || len(k.Signature) == 0 {
			continue
		}
		ok := true
		for key, want := range k.Signature {
			got, has := v.Signature[key]
			if !has || fmt.Sprint(got) != fmt.Sprint(want) {
				ok = false
				break
			}
		}
		if ok {
			return k
		}
	}
	return nil
}

func drive(args []string) int {
	fs := flag.NewFlagSet("drive", flag.ExitOnError)
	prop := fs.String("prop", "", "")
	tier := fs.String("tier", "quick", "")
	seed := fs.Int64("seed", 1, "")
	par := fs.Int("par", 16, "")
	keep := fs.Bool("keep", false, "keep work dir")
	noEvidence := fs.Bool("no-evidence", false, "do not write the evidence file (self-test runs)")
	fs.Parse(args)
	if s := os.Getenv("VERIF_SEED"); s != "" {
		if v, err := strconv.ParseInt(s, 10, 64); err == nil {
			*seed = v
		}
	}
	pl, ok := plans[*prop]
	if !ok {
		fmt.Printf("INCONCLUSIVE property=%s no plan\n", *prop)
		return 2
	}
	jobs := pl.Quick
	if *tier == "thorough" {
		jobs = pl.Thorough
	}
	if only := os.Getenv("VERIF_ONLY_FLAVOUR"); only != "" { // debugging / self-test aid
		var f []job
		for _, j := range jobs {
			if j.Flavour == only {
				f = append(f, j)
			}
		}
		jobs = f
	}
	start := time.Now()
	os.MkdirAll(binDir(), 0o755)
	workdir := filepath.Join(verifRoot, ".work", fmt.Sprintf("%s-%d", *prop, os.Getpid()))
	os.MkdirAll(workdir, 0o755)
	if !*keep {
		defer os.RemoveAll(workdir)
	}
	defer os.RemoveAll(filepath.Join(verifRoot, ".work", "mods", fmt.Sprint(os.Getpid())))
	defer func() {
		m, _ := filepath.Glob(filepath.Join(binDir(), fmt.Sprintf("vh*-%d", os.Getpid())))
		for _, f := range m {
			os.Remove(f)
		}
	}()

	// 1. build flavours (sequentially: the go build cache is shared, builds are parallel inside)
	bins := map[string]string{}
	var optionalMissing []string
	for _, j := range jobs {
		if _, ok := bins[j.Flavour]; ok || j.Flavour == "fuzz" {
			continue
		}
		b, err := buildFlavour(j.Flavour)
		if err != nil {
			if strings.HasPrefix(j.Flavour, "go126") {
				optionalMissing = append(optionalMissing, j.Flavour)
				bins[j.Flavour] = ""
				continue
			}
			fmt.Printf("INCONCLUSIVE property=%s %v\n", *prop, err)
			return 2
		}
		bins[j.Flavour] = b
	}

	// 2. run workers
	var runs []*workerRun
	for _, j := range jobs {
		if bins[j.Flavour] == "" {
			continue
		}
		for s := 0; s < j.Shards; s++ {
			runs = append(runs, &workerRun{job: j, shard: s, bin: bins[j.Flavour]})
		}
	}
	timeout := 20 * time.Minute
	if *tier == "thorough" {
		timeout = 4 * time.Hour
	}
	sem := make(chan struct{}, *par)
	var wg sync.WaitGroup
	for _, r := range runs {
		wg.Add(1)
		go func(r *workerRun) {
			defer wg.Done()
			sem <- struct{}{}
			defer func() { <-sem }()
			runWorker(r, *prop, *tier, *seed, workdir, timeout)
		}(r)
	}
	wg.Wait()
	// native fuzzing (thorough tier of C03/C08/C10) runs after the deterministic workers, with all cores
	var fuzzViols []drv.Violation
	var fuzzExecs, fuzzNew int64 = -1, 0
	var fuzzNote string
	for _, j := range jobs {
		if j.Flavour == "fuzz" {
			fuzzExecs, fuzzNew, fuzzViols, fuzzNote = runFuzzJob(*prop, *seed, *tier, int64(j.Shards))
		}
	}

	// 3. merge
	known := loadKnown()
	merged := struct {
		evals    int64
		obs      map[string]int64
		dontcare map[string]int64
		samples  []interface{}
		stages   map[string]int64
		exh      map[string]bool
		perFl    map[string]map[string]int64
	}{obs: map[string]int64{}, dontcare: map[string]int64{}, stages: map[string]int64{}, exh: map[string]bool{}, perFl: map[string]map[string]int64{}}
	distinct := map[uint64]struct{}{}
	var viols []drv.Violation
	var inconclusive []string
	for _, r := range runs {
		fl := r.job.Flavour
		if merged.perFl[fl] == nil {
			merged.perFl[fl] = map[string]int64{}
		}
		if r.res == nil || !r.res.Done {
			// crashed or killed
			if r.timedOut {
				inconclusive = append(inconclusive, fmt.Sprintf("worker %s/%d hit the wall-clock watchdog at %q", fl, r.shard, strings.TrimSpace(r.cur)))
				continue
			}
			if r.oomKill {
				inconclusive = append(inconclusive, fmt.Sprintf("worker %s/%d exceeded the RSS cap at %q", fl, r.shard, strings.TrimSpace(r.cur)))
				continue
			}
			stage, idx := parseCur(r.cur)
			kind := crashKind(r.stderr)
			tail := r.stderr
			if len(tail) > 8000 {
				tail = tail[:3000] + "\n...\n" + tail[len(tail)-5000:]
			}
			viols = append(viols, drv.Violation{Property: *prop, Check: "crash", Stage: stage, Index: idx, Seed: *seed, Tier: *tier, Flavour: fl,
				Signature: map[string]interface{}{"check": "crash", "kind": kind, "stage": stage},
				Detail:    map[string]interface{}{"exit": fmt.Sprint(r.exitErr), "stderr": tail, "shard": r.shard, "nshards": r.job.Shards}})
			continue
		}
		merged.evals += r.res.Evals
		merged.perFl[fl]["evaluations"] += r.res.Evals
		merged.perFl[fl]["workers"]++
		for k, v := range r.res.Obs {
			if strings.HasPrefix(k, "max_") {
				if merged.obs[k] < v {
					merged.obs[k] = v
				}
			} else {
				merged.obs[k] += v
			}
		}
		for k, v := range r.res.DontCare {
			merged.dontcare[k] += v
		}
		for k, v := range r.res.Stages {
			merged.stages[fl+":"+k] += v
		}
		for _, e := range r.res.Exhaustive {
			merged.exh[e] = true
		}
		if len(merged.samples) < 8 {
			for _, s := range r.res.Samples {
				if len(merged.samples) < 8 {
					merged.samples = append(merged.samples, s)
				}
			}
		}
		for i := 0; i+8 <= len(r.hashes); i += 8 {
			distinct[binary.LittleEndian.Uint64(r.hashes[i:])] = struct{}{}
		}
		viols = append(viols, r.res.Violations...)
		for _, w := range r.res.Watchdogs {
			inconclusive = append(inconclusive, fmt.Sprintf("worker %s/%d: an operation did not return within its wall-clock bound: %s", fl, r.shard, w))
		}
		if r.exitErr != nil {
			inconclusive = append(inconclusive, fmt.Sprintf("worker %s/%d exited with %v after writing its result", fl, r.shard, r.exitErr))
		}
	}
	viols = append(viols, fuzzViols...)
	if fuzzWorkerDeaths > 0 {
		merged.obs["fuzz worker processes that ended unexpectedly on an input that passes when run again (fuzzing restarted)"] = fuzzWorkerDeaths
	}
	if fuzzExecs >= 0 {
		merged.obs["native fuzz executions"] = fuzzExecs
		merged.obs["native fuzz new-coverage inputs"] = fuzzNew
		merged.evals += fuzzExecs
		if fuzzNote != "" {
			inconclusive = append(inconclusive, fuzzNote)
		}
	}
	// race logs
	raceBlocks, raceViols := parseRaceLogs(workdir, *prop, *tier, *seed)
	viols = append(viols, raceViols...)
	if raceBlocks >= 0 {
		merged.obs["race_log_blocks"] = int64(raceBlocks)
	}
	for _, r := range runs {
		for _, a := range flavours[r.job.Flavour].build {
			if a == "-race" && r.res != nil && r.res.Done {
				merged.obs["race-detector worker runs completed"]++
				if raceBlocks < 0 {
					merged.obs["race_log_blocks"] = 0
				}
			}
		}
	}

	// 4. required observations
	for _, name := range pl.Required {
		if merged.obs[name] <= 0 {
			inconclusive = append(inconclusive, fmt.Sprintf("mandatory observation %q was never made", name))
		}
	}
	if len(merged.samples) == 0 {
		merged.samples = []interface{}{}
		if len(viols) == 0 {
			inconclusive = append(inconclusive, "no sample case was recorded")
		}
	}
	if merged.evals == 0 && len(viols) == 0 {
		inconclusive = append(inconclusive, "no case was evaluated")
	}
	for _, m := range optionalMissing {
		merged.obs["flavour_unavailable_"+m] = 1
	}

	// 5. verdict
	os.MkdirAll(filepath.Join(verifRoot, "replays"), 0o755)
	seenSig := map[string]bool{}
	seenKnown := map[string]bool{}
	nUnknown := 0
	nKnownHits := 0
	for _, v := range viols {
		if k := matchKnown(known, v); k != nil {
			nKnownHits++
			if !seenKnown[k.What] {
				seenKnown[k.What] = true
				fmt.Printf("KNOWN-FINDING: property=%s %s\n", *prop, k.What)
			}
			continue
		}
		sk := drv.SigKey(v.Signature)
		if seenSig[sk] {
			nUnknown++
			continue
		}
		seenSig[sk] = true
		nUnknown++
		if len(seenSig) > 10 {
			continue
		}
		b, _ := json.MarshalIndent(v, "", " ")
		h := sha256.Sum256([]byte(sk + v.Stage + fmt.Sprint(v.Index, v.Seed)))
		path := filepath.Join(verifRoot, "replays", fmt.Sprintf("%s-%s.json", *prop, hex.EncodeToString(h[:6])))
		os.WriteFile(path, b, 0o644)
		fmt.Printf("VIOLATION property=%s replay=%s\n", *prop, path)
		fmt.Printf("  check=%s stage=%s index=%d flavour=%s signature=%s\n", v.Check, v.Stage, v.Index, v.Flavour, sk)
	}

	// 6. evidence
	wall := time.Since(start).Seconds()
	if !*noEvidence {
		stageNames := make([]string, 0, len(merged.exh))
		for k := range merged.exh {
			stageNames = append(stageNames, k)
		}
		sort.Strings(stageNames)
		cov := map[string]interface{}{
			"evaluations":         merged.evals,
			"distinct_nontrivial": len(distinct),
			"rule":                pl.Rule,
			"samples":             merged.samples,
			"observations":        merged.obs,
			"dont_care_skipped":   merged.dontcare,
			"cases_per_stage":     merged.stages,
			"per_flavour":         merged.perFl,
			"exhaustive_stages":   stageNames,
			"exhaustive":          false,
			"known_finding_hits":  nKnownHits,
			"inconclusive":        inconclusive,
		}
		ev := map[string]interface{}{
			"property_id": *prop,
			"tier":        *tier,
			"seed":        *seed,
			"level":       pl.Level,
			"coverage":    cov,
			"assumptions": pl.Assumptions,
			"wall_s":      wall,
			"violations":  nUnknown,
		}
		b, _ := json.MarshalIndent(ev, "", " ")
		os.MkdirAll(filepath.Join(verifRoot, "evidence"), 0o755)
		os.WriteFile(filepath.Join(verifRoot, "evidence", *prop+".json"), b, 0o644)
	}
	fmt.Printf("SUMMARY property=%s tier=%s seed=%d evaluations=%d distinct_nontrivial=%d violations=%d known_hits=%d wall_s=%.1f\n",
		*prop, *tier, *seed, merged.evals, len(distinct), nUnknown, nKnownHits, wall)
	if nUnknown > 0 {
		return 1
	}
	if len(inconclusive) > 0 {
		for _, s := range inconclusive {
			fmt.Printf("INCONCLUSIVE property=%s %s\n", *prop, s)
		}
		return 2
	}
	return 0
}

var reFuzzExecs = regexp.MustCompile(`execs: (\d+) .*new interesting: (\d+)`)
var reFuzzFail = regexp.MustCompile(`Failing input written to (testdata/fuzz/\S+)`)

// fuzzWorkerDeaths counts fuzz worker processes that ended unexpectedly on an input that passes when run again.
var fuzzWorkerDeaths int64

// runFuzzJob runs `go test -fuzz` on the property's native fuzz target for millions x 10^6 executions.
func runFuzzJob(prop string, seed int64, tier string, millions int64) (execs, interesting int64, viols []drv.Violation, note string) {
	mf, err := writeModfile("plain")
	if err != nil {
		return 0, 0, nil, "fuzz modfile: " + err.Error()
	}
	ov, err := writeOverlay()
	if err != nil {
		return 0, 0, nil, "fuzz overlay: " + err.Error()
	}
	target := "Fuzz" + prop
	attempt := 0
again:
	args := []string{"test", "-modfile=" + mf, "-overlay=" + ov, "-run=^$", "-fuzz=^" + target + "$", fmt.Sprintf("-fuzztime=%dx", millions*1000000), "-parallel=16", "./fuzz"}
	cmd := exec.Command("go", args...)
	cmd.Dir = harnessDir()
	cmd.Env = append(goEnv(), fmt.Sprintf("VERIF_SEED=%d", seed))
	var buf bytes.Buffer
	cmd.Stdout, cmd.Stderr = &buf, &buf
	runErr := cmd.Run()
	out := buf.String()
	for _, m := range reFuzzExecs.FindAllStringSubmatch(out, -1) {
		execs, _ = strconv.ParseInt(m[1], 10, 64)
		interesting, _ = strconv.ParseInt(m[2], 10, 64)
	}
	if runErr == nil {
		return
	}
	m := reFuzzFail.FindStringSubmatch(out)
	var raw []byte
	if m != nil {
		crasher := filepath.Join(harnessDir(), "fuzz", m[1])
		raw, _ = os.ReadFile(crasher)
		if !strings.Contains(out, "VIOLATION {") && attempt == 0 {
			// a fuzz worker process ended without the monitor having judged anything ("terminated unexpectedly").
			// Run the recorded input again, alone, in fresh processes: if it passes, the death is not a property
			// of the input; fuzzing is then started once more and the event is recorded as an observation.
			rr := exec.Command("go", "test", "-modfile="+mf, "-overlay="+ov, "-run=^"+target+"$/"+filepath.Base(crasher), "-count=3", "./fuzz")
			rr.Dir = harnessDir()
			rr.Env = cmd.Env
			rout, rerr := rr.CombinedOutput()
			if rerr == nil {
				os.Remove(crasher)
				os.Remove(filepath.Dir(crasher))
				os.Remove(filepath.Dir(filepath.Dir(crasher)))
				os.Remove(filepath.Dir(filepath.Dir(filepath.Dir(crasher))))
				fuzzWorkerDeaths++
				attempt++
				goto again
			}
			out += "\n--- the recorded input run again alone:\n" + string(rout)
		}
		os.Remove(crasher) // never leave a crasher in the tree: the next run must start clean
		os.Remove(filepath.Dir(crasher))
		os.Remove(filepath.Dir(filepath.Dir(crasher)))
		os.Remove(filepath.Dir(filepath.Dir(filepath.Dir(crasher))))
	} else if !strings.Contains(out, "VIOLATION {") {
		tail := out
		if len(tail) > 1500 {
			tail = tail[len(tail)-1500:]
		}
		return execs, interesting, nil, "native fuzzing ended abnormally without a failing input: " + tail
	}
	inHex, ty := parseCorpusFile(string(raw))
	v := drv.Violation{Property: prop, Check: "native-fuzz", Stage: "native-fuzz", Index: 0, Seed: seed, Tier: tier, Flavour: "plain",
		Signature: map[string]interface{}{"check": "native-fuzz"}, Detail: map[string]interface{}{"input_hex": inHex, "type": ty, "corpus_file": string(raw)}}
	if i := strings.Index(out, "VIOLATION {"); i >= 0 {
		line := out[i+len("VIOLATION "):]
		if j := strings.Index(line, "\n"); j >= 0 {
			line = line[:j]
		}
		var inner drv.Violation
		if json.Unmarshal([]byte(line), &inner) == nil {
			v.Check = inner.Check
			v.Signature = inner.Signature
			v.Signature["found_by"] = "native-fuzz"
			v.Detail["monitor"] = inner.Detail
			if cse, ok := inner.Detail["case"].(map[string]interface{}); ok && len(raw) == 0 {
				// the failing input was a seed-corpus entry (no crasher file is written for those)
				v.Detail["input_hex"] = cse["input_hex"]
				if t, ok := cse["type"].(float64); ok {
					v.Detail["type"] = int(t)
				}
			}
		}
	} else {
		tail := out
		if len(tail) > 3000 {
			tail = tail[len(tail)-3000:]
		}
		v.Detail["output"] = tail
	}
	return execs, interesting, []drv.Violation{v}, ""
}

// parseCorpusFile extracts the []byte and byte arguments of a "go test fuzz v1" corpus file.
func parseCorpusFile(s string) (inHex string, ty int) {
	for _, l := range strings.Split(s, "\n") {
		l = strings.TrimSpace(l)
		if strings.HasPrefix(l, "[]byte(") && strings.HasSuffix(l, ")") {
			if u, err := strconv.Unquote(l[len("[]byte(") : len(l)-1]); err == nil {
				inHex = hex.EncodeToString([]byte(u))
			}
		}
		if strings.HasPrefix(l, "byte(") && strings.HasSuffix(l, ")") {
			if u, err := strconv.Unquote(l[len("byte(") : len(l)-1]); err == nil && len(u) > 0 {
				r := []rune(u)
				ty = int(r[0])
				if len(u) == 1 {
					ty = int(u[0])
				}
			}
		}
	}
	return
}

func parseCur(s string) (string, int64) {
	f := strings.Fields(s)
	if len(f) >= 2 {
		n, _ := strconv.ParseInt(f[1], 10, 64)
		return f[0], n
	}
	return "", -1
}

func crashKind(stderr string) string {
	switch {
	case strings.Contains(stderr, "AddressSanitizer"):
		return "asan"
	case strings.Contains(stderr, "checkptr"):
		return "checkptr"
	case strings.Contains(stderr, "concurrent map"):
		return "concurrent-map"
	case strings.Contains(stderr, "stack overflow") || strings.Contains(stderr, "goroutine stack exceeds"):
		return "stack-overflow"
	case strings.Contains(stderr, "fatal: case did not return within"):
		return "no-return"
	case strings.Contains(stderr, "out of memory"):
		return "out-of-memory"
	case strings.Contains(stderr, "unexpected fault address") || strings.Contains(stderr, "SIGSEGV"):
		return "fault"
	case strings.Contains(stderr, "fatal error"):
		return "fatal"
	}
	return "exit"
}

func runWorker(r *workerRun, prop, tier string, seed int64, workdir string, timeout time.Duration) {
	fl := r.job.Flavour
	args := []string{"worker", "-prop", prop, "-tier", tier, "-seed", fmt.Sprint(seed), "-flavour", fl,
		"-shard", fmt.Sprint(r.shard), "-nshards", fmt.Sprint(r.job.Shards), "-workdir", workdir}
	cmd := exec.Command(r.bin, args...)
	cmd.Env = append(os.Environ(), "GOTRACEBACK=all")
	if cd := os.Getenv("VERIF_COVER"); cd != "" && fl == "plain" {
		cmd.Env = append(cmd.Env, "GOCOVERDIR="+cd)
	}
	def := flavours[fl]
	isRace := false
	for _, a := range def.build {
		if a == "-race" {
			isRace = true
		}
	}
	if isRace {
		cmd.Env = append(cmd.Env, fmt.Sprintf("GORACE=halt_on_error=0 history_size=3 log_path=%s/racelog-%s-%d", workdir, fl, r.shard))
	}
	if fl == "asan" {
		cmd.Env = append(cmd.Env, "ASAN_OPTIONS=detect_leaks=0:abort_on_error=0:halt_on_error=1")
	}
	if prop != "C14" {
		// the workloads of every other property are sequential per worker and many workers run side by side:
		// few Ps per worker keep the per-P caches of sync.Pool (and with them the retained pool buffers) small
		cmd.Env = append(cmd.Env, "GOMAXPROCS=4")
	}
	if fl == "gcstress" {
		cmd.Env = append(cmd.Env, "GOGC=1", "GODEBUG=clobberfree=1")
	}
	errPath := filepath.Join(workdir, fmt.Sprintf("%s-%d.stderr", fl, r.shard))
	ef, _ := os.Create(errPath)
	cmd.Stdout, cmd.Stderr = ef, ef
	cmd.SysProcAttr = &syscall.SysProcAttr{Setpgid: true}
	if err := cmd.Start(); err != nil {
		r.exitErr = err
		ef.Close()
		return
	}
	done := make(chan error, 1)
	go func() { done <- cmd.Wait() }()
	tick := time.NewTicker(2 * time.Second)
	defer tick.Stop()
	deadline := time.After(timeout)
loop:
	for {
		select {
		case err := <-done:
			r.exitErr = err
			break loop
		case <-deadline:
			r.timedOut = true
			cmd.Process.Signal(syscall.SIGQUIT)
			select {
			case <-done:
			case <-time.After(10 * time.Second):
				cmd.Process.Kill()
				<-done
			}
			break loop
		case <-tick.C:
			if rssKB(cmd.Process.Pid) > 12<<20 { // 12 GiB
				r.oomKill = true
				cmd.Process.Kill()
				<-done
				break loop
			}
		}
	}
	ef.Close()
	if b, err := os.ReadFile(errPath); err == nil {
		r.stderr = string(b)
	}
	base := filepath.Join(workdir, fmt.Sprintf("%s-%d", fl, r.shard))
	if b, err := os.ReadFile(base + ".cur"); err == nil {
		r.cur = string(b)
	}
	if b, err := os.ReadFile(base + ".result.json"); err == nil {
		var res drv.Result
		if json.Unmarshal(b, &res) == nil {
			r.res = &res
		}
	}
	if b, err := os.ReadFile(base + ".hashes"); err == nil {
		r.hashes = b
	}
}

func rssKB(pid int) int64 {
	b, err := os.ReadFile(fmt.Sprintf("/proc/%d/status", pid))
	if err != nil {
		return 0
	}
	for _, l := range strings.Split(string(b), "\n") {
		if strings.HasPrefix(l, "VmRSS:") {
			f := strings.Fields(l)
			if len(f) >= 2 {
				n, _ := strconv.ParseInt(f[1], 10, 64)
				return n
			}
		}
	}
	return 0
}

var reFrame = regexp.MustCompile(`^\s+(\S+)\(`)
var reLine = regexp.MustCompile(`:\d+ \+0x[0-9a-f]+$`)

// parseRaceLogs reads every racelog-* file, counts report blocks and de-duplicates them by
// the pair of outermost non-runtime frames, then by the stack pair with line numbers stripped.
func parseRaceLogs(workdir, prop, tier string, seed int64) (int, []drv.Violation) {
	files, _ := filepath.Glob(filepath.Join(workdir, "racelog-*"))
	if len(files) == 0 {
		return -1, nil
	}
	blocks := 0
	seen := map[string]bool{}
	var out []drv.Violation
	for _, f := range files {
		b, err := os.ReadFile(f)
		if err != nil {
			continue
		}
		parts := strings.Split(string(b), "WARNING: DATA RACE")
		for _, p := range parts[1:] {
			blocks++
			if i := strings.Index(p, "=================="); i >= 0 {
				p = p[:i]
			}
			// collect stacks: sections start with "Read at", "Write at", "Previous read at", "Previous write at"
			var stacks [][]string
			var cur []string
			inAccess := false
			for _, line := range strings.Split(p, "\n") {
				t := strings.TrimSpace(line)
				if strings.HasPrefix(t, "Read at") || strings.HasPrefix(t, "Write at") || strings.HasPrefix(t, "Previous read at") || strings.HasPrefix(t, "Previous write at") ||
					strings.HasPrefix(t, "Atomic") || strings.HasPrefix(t, "Previous atomic") {
					if cur != nil {
						stacks = append(stacks, cur)
					}
					cur = []string{}
					inAccess = true
					continue
				}
				if strings.HasPrefix(t, "Goroutine ") {
					if cur != nil {
						stacks = append(stacks, cur)
					}
					cur = nil
					inAccess = false
					continue
				}
				if inAccess {
					if m := reFrame.FindStringSubmatch(line); m != nil {
						cur = append(cur, m[1])
					}
				}
			}
			if cur != nil {
				stacks = append(stacks, cur)
			}
			outer := []string{}
			full := []string{}
			for _, st := range stacks {
				o := ""
				for _, fr := range st {
					if !strings.HasPrefix(fr, "runtime.") && !strings.HasPrefix(fr, "sync.") && !strings.HasPrefix(fr, "testing.") {
						o = fr
					}
				}
				outer = append(outer, o)
				full = append(full, strings.Join(st, "<"))
			}
			sort.Strings(outer)
			sort.Strings(full)
			key := strings.Join(outer, " | ") + " || " + strings.Join(full, " | ")
			if seen[key] {
				continue
			}
			seen[key] = true
			inner := []string{}
			for _, st := range stacks {
				if len(st) > 0 {
					inner = append(inner, st[0])
				}
			}
			sort.Strings(inner)
			text := p
			if len(text) > 5000 {
				text = text[:5000]
			}
			out = append(out, drv.Violation{Property: prop, Check: "data-race", Stage: "race-log", Index: -1, Seed: seed, Tier: tier, Flavour: "race",
				Signature: map[string]interface{}{"check": "data-race", "frames": strings.Join(inner, " | ")},
				Detail:    map[string]interface{}{"report": text, "log": filepath.Base(f)}})
		}
	}
	return blocks, out
}

func replay(args []string) int {
	fs := flag.NewFlagSet("replay", flag.ExitOnError)
	file := fs.String("file", "", "")
	fs.Parse(args)
	b, err := os.ReadFile(*file)
	if err != nil {
		fmt.Println("cannot read replay file:", err)
		return 2
	}
	var v drv.Violation
	if err := json.Unmarshal(b, &v); err != nil {
		fmt.Println("bad replay file:", err)
		return 2
	}
	if v.Index < 0 || v.Stage == "" || v.Stage == "race-log" {
		fmt.Printf("replay of %s: this witness is a whole-run observation (%s); re-run the check with VERIF_SEED=%d\n", v.Property, v.Check, v.Seed)
		return 2
	}
	os.MkdirAll(binDir(), 0o755)
	bin, err := buildFlavour(v.Flavour)
	if err != nil {
		fmt.Println(err)
		return 2
	}
	cmd := exec.Command(bin, "worker", "-prop", v.Property, "-tier", v.Tier, "-seed", fmt.Sprint(v.Seed), "-flavour", v.Flavour,
		"-only-stage", v.Stage, "-only-index", fmt.Sprint(v.Index), "-v")
	if v.Stage == "native-fuzz" {
		cmd.Env = append(os.Environ(), fmt.Sprintf("VERIF_FUZZ_HEX=%v", v.Detail["input_hex"]), fmt.Sprintf("VERIF_FUZZ_TYPE=%v", v.Detail["type"]))
	}
	var out bytes.Buffer
	cmd.Stdout = &out
	cmd.Stderr = os.Stderr
	err = cmd.Run()
	var res drv.Result
	if json.Unmarshal(out.Bytes(), &res) != nil {
		fmt.Printf("VIOLATION property=%s replay=%s\n  (worker died: %v)\n", v.Property, *file, err)
		return 1
	}
	if res.NViol > 0 {
		fmt.Printf("VIOLATION property=%s replay=%s\n", v.Property, *file)
		return 1
	}
	fmt.Printf("replay of %s stage=%s index=%d: no violation reproduced\n", v.Property, v.Stage, v.Index)
	return 0
}
