// Command vh is both the worker (runs monitors in-process) and the driver (builds the
// flavours, forks workers, merges results, writes evidence, prints verdict lines).
package main

import (
	"flag"
	"fmt"
	"os"
	"runtime/debug"
	"runtime/pprof"

	"verifharness/drv"
	_ "verifharness/mon"
)

func main() {
	if len(os.Args) < 2 {
		fmt.Fprintln(os.Stderr, "usage: vh worker|drive|replay|list ...")
		os.Exit(2)
	}
	switch os.Args[1] {
	case "worker":
		worker(os.Args[2:])
	case "drive":
		os.Exit(drive(os.Args[2:]))
	case "replay":
		os.Exit(replay(os.Args[2:]))
	case "list":
		for _, p := range drv.Props() {
			fmt.Println(p)
		}
	default:
		fmt.Fprintln(os.Stderr, "unknown subcommand")
		os.Exit(2)
	}
}

func worker(args []string) {
	fs := flag.NewFlagSet("worker", flag.ExitOnError)
	prop := fs.String("prop", "", "")
	tier := fs.String("tier", "quick", "")
	seed := fs.Int64("seed", 1, "")
	flavour := fs.String("flavour", "plain", "")
	shard := fs.Int("shard", 0, "")
	nshards := fs.Int("nshards", 1, "")
	workdir := fs.String("workdir", "", "")
	onlyStage := fs.String("only-stage", "", "")
	onlyIndex := fs.Int64("only-index", -1, "")
	verbose := fs.Bool("v", false, "")
	fs.Parse(args)
	// soft heap limit: transient garbage from the decoders that buffer what the input declares must not balloon
	// when the machine is loaded and the collector falls behind (the driver's RSS cap would make the run inconclusive)
	debug.SetMemoryLimit(6 << 30)
	m := drv.Lookup(*prop)
	if m == nil {
		fmt.Fprintf(os.Stderr, "no monitor for %q\n", *prop)
		os.Exit(2)
	}
	c := drv.NewCtx(*prop, *tier, *seed, *flavour, *shard, *nshards, *workdir)
	c.OnlyStage, c.OnlyIndex, c.Verbose = *onlyStage, *onlyIndex, *verbose
	if pf := os.Getenv("VERIF_CPUPROF"); pf != "" { // development aid: where does a stage spend its time
		if f, err := os.Create(pf); err == nil {
			pprof.StartCPUProfile(f)
			defer pprof.StopCPUProfile()
		}
	}
	m(c)
	if err := c.Finish(); err != nil {
		fmt.Fprintln(os.Stderr, "finish:", err)
		os.Exit(3)
	}
}
