package main

type plan struct {
	Level       string // evidence level
	Rule        string
	Assumptions []string
	Required    []string // observation counters that must be > 0
	Quick       []job
	Thorough    []job
}

var commonAssumptions = []string{
	"the reference models in /verif/harness/ref are correct renderings of the Thrift Binary / TTHeader wire formats",
	"linux/amd64, 64-bit int; the Go toolchain, race detector and ASan runtime are trusted",
	"only the executions listed here were observed; nothing is claimed about cases that were not generated",
}

var plans = map[string]plan{
	"C08": {
		Level:    "exploration",
		Rule:     "case = (requested type, input bytes) run through all 5 skipping facilities (7 configurations); inputs: bounded-exhaustive strings over a 15-symbol grammar alphabet, mutated valid encodings (truncate/substitute/size-window/splice/insert/delete), huge size fields, nesting 1..70 per container kind and through every entry position, size fields 0x7fffffff..0xffffffff really followed by that many (untouched, mapped) bytes, a follow-up call on the same decoder after every rejection. Non-trivial iff the oracle rejects the input or accepts it with nesting >= 2; distinct by (type, bytes). Also: one SkipDecoder whose reader is also read directly between two Next calls (values and raw bytes alternating on bytes-backed, stream-backed and foreign readers, stream possibly ending in a cut-short value); the stream-backed skippers run over standard-library readers (bytes.Reader, strings.Reader, bufio, iotest, Limit/Multi/Section) a quarter of the time. A struct walked field by field on ReaderSkipDecoder: headers with the exported SkipN, values with Next. The exported skip template run directly over each of the three decoders (accept / reject judged). Several values in a row on one BytesSkipDecoder, the last possibly cut short, the slice ending at a guard page or being a view with the missing bytes behind it. Garbled values stepped over by the caller on the shared reader; a third of the values on the stream-backed reader are skipped with BufferReader.Skip.",
		Required: []string{"oracle-accept judged", "oracle-reject judged", "nesting>=65 cases"},
		Quick:    []job{{"plain", 8}},
		Thorough: []job{{"gcstress", 4}, {"plain", 16}, {"race", 4}, {"go126", 4}, {"fuzz", 3}},
	},
	"C02": {
		Level:    "exploration",
		Rule:     "case = 1..3 well-formed values (generated typed trees) back-to-back + 0..64 trailing bytes on ONE instance of each skipper, under one of 6 fragmentation schedules, optionally with the final data delivered together with io.EOF; plus the full container x key-type x value-type x size grid under all schedules, nesting 1..63 for every container kind, strings around the 4096/8192 boundaries, multi-megabyte values incl. release-after-huge-value histories with co-tenants of the buffer pool. Non-trivial iff a value has nesting >= 2, or is a container > 20 bytes, or is > 4096 bytes; distinct by (value shapes, bytes, trailing length, schedule, eof mode). Histories of 4-16 values on one stream-backed reader that is released after about every second value (strings up to 70000 bytes); ReaderSkipDecoder over a source that is drained, polled (io.EOF) and refilled. A quarter of the ReaderSkipDecoder streams end at the last value's last byte with an error (io.EOF or another) delivered together with the data. Garbled values of known length (a negative size in second position) between the well-formed ones: refused, stepped over by the caller, the same decoder used again.",
		Required: []string{"values skipped", "reader-skip-decoder values", "grid combinations", "long-string cases"},
		Quick:    []job{{"plain", 8}},
		Thorough: []job{{"gcstress", 4}, {"plain", 16}, {"race", 4}},
	},
	"C03": {
		Level:    "exploration",
		Rule:     "case = input bytes run through every buffer-based decoding entry point (23 + Binary.Skip/BytesSkipDecoder for several requested type bytes) at two guard-page placements (input ends at / starts after a PROT_NONE page). Inputs: all strings of length <= 2, grammar-alphabet strings, mutations/truncations/boundary substitutions of valid encodings of every shape (values, Base/BaseResp/exception structs, messages, unknown-field sequences, TTHeader frames), huge size fields. Non-trivial iff length >= 1 and (mutated valid encoding or alphabet string of length >= 3); distinct by bytes. Also: every third case additionally places the input in write-protected pages (a store into the input is a fault, reported as decoder-wrote-into-its-input); thorough tier: 2^31 and 2^32 calls of ReadString/ReadBinary with the span cache on (call-counters-wrap). Wide values: 1.5 million sibling fields / elements at one level under a 32 MiB stack cap. TTHeader frames declaring 240..255 transform ids in header-info sections long enough to hold them.",
		Required: []string{"guarded decoder calls", "decoder successes", "decoder errors", "full truncation sweeps"},
		Quick:    []job{{"plain", 8}},
		Thorough: []job{{"gcstress", 4}, {"plain", 16}, {"asan", 8}, {"race", 4}, {"go126", 4}, {"fuzz", 3}},
	},
	"C04": {
		Level:    "fault_enumeration",
		Rule:     "case = operation history over {Next,Peek,Skip,ReadBinary}x{0,1,7,4095,4096,4097,8193,20000} + Release (bounded-exhaustive to length 3/4 over these 33 symbols x 6 source behaviours; random to 300 steps incl. negative counts) x hostile source (chunk schedule, zero-byte reads, error kind, error position, error with/after the final data; every error position of every stream <= 64 bytes; endless zero-read source) for the io.Reader-backed and the bytes-backed reader. Every result is checked online against a cursor model over a position-coded stream. Non-trivial iff the history saw a growth (request > 4096 or > 1 pool malloc), a request spanning >= 2 source reads, a surfaced error, or a Release with an unread buffered tail; distinct by (ops, source behaviour, reader kind). Also: 1-5 MiB consumed and peeked between two Releases with every slice kept; 0..99 empty reads between the last data and the error, for every count. 66000 Release cycles on one reader. The source's terminal error is one of five values, among them one that wraps io.EOF and a timeout.",
		Required: []string{"errors surfaced", "histories with growth", "releases with unread buffered tail", "errors delivered with data", "zero reads served", "error-position cases", "no-progress histories"},
		Quick:    []job{{"plain", 8}, {"poison", 4}},
		Thorough: []job{{"gcstress", 4}, {"plain", 16}, {"poison", 8}},
	},
	"C05": {
		Level:    "fault_enumeration",
		Rule:     "case = operation history over {Malloc eager, Malloc lazily-filled, WriteBinary}x{0,1,3,4095,4096,4097,8193,20000} + Flush (bounded-exhaustive to length 3/4 over 25 symbols x 7 configurations; random to 180 steps) x sink behaviour (never fails / fails at the k-th Write for every k) x writer kind (io.Writer-backed; bytes-backed over nil / empty-with-capacity / partial / full initial slices). Regions get distinct content, lazily filled ones only right before Flush in shuffled order. Checked online against a region/concatenation model. Non-trivial iff >= 1 growth between flushes (> 4096 unflushed bytes), a lazily filled region, a sink failure or >= 2 flushes; distinct by (ops, configuration). Also: sinks that fail once and accept writes again afterwards (the error must stick and nothing more may reach the sink); 1-5 MiB accumulated between two flushes in many lazily filled pieces. 66000 flush cycles on one writer; bytes-writer targets that are non-nil with capacity 0.",
		Required: []string{"flushes", "histories with growth", "histories with lazily filled regions", "sink failures injected", "bytes-writer flushes judged", "fail-at-every-k histories"},
		Quick:    []job{{"plain", 8}, {"poison", 4}},
		Thorough: []job{{"gcstress", 4}, {"plain", 16}, {"poison", 8}},
	},
	"C09": {
		Level:    "exploration",
		Rule:     "case = history that retains every slice handed out by Next/Peek (resp. every Malloc region) until Release/Flush while later requests force 0..6 growths, over the io.Reader-backed and bytes-backed reader/writer with caller buffers of power-of-two and other capacities; SkipDecoder runs retaining up to 200 results over a fragmenting source; ReaderSkipDecoder growth sequences. Configuration A (poisoning pool shim: recycled buffers are poisoned and quarantined, foreign/double frees and writes after recycle are events) and configuration B (real pool plus a co-tenant that between any two operations takes buffers from every relevant size class, checks their address ranges against all live slices and caller memory, and overwrites them). Non-trivial iff a slice is retained across a request > 4096 (growth) or a caller-owned buffer is involved; distinct by (configuration, ops, source/initial-slice class). Also: readers and writers dropped without Release/Flush, their slices re-checked after three collections and pool reuse; components layered over a reader (ttheader.Decode, BufferReader.Skip/ReadMessageBegin, SkipDecoder.Next) run on valid and mutated input while the caller holds an earlier slice - ReadLen may not go back and the slice may not change.",
		Required: []string{"reader histories retaining a slice across a growth", "caller-owned reader buffers", "caller-owned writer targets", "co-tenant buffers scribbled", "pool frees (shim)", "skip-decoder results retained", "reader-skip-decoder growth sequences", "growth ladders"},
		Quick:    []job{{"plain", 8}, {"poison", 8}},
		Thorough: []job{{"gcstress", 4}, {"plain", 16}, {"poison", 16}, {"go126", 4}},
	},
	"C01": {
		Level:    "exploration",
		Rule:     "case = sequence of 1..40 codec values (bool, byte, i16, i32, i64, double, string, binary, field begin/stop, map/list/set begin with sizes up to 2^31-1, message begin) written by the in-place writer (into an exact-length canary-margined buffer), the appending writer (onto a random prefix/capacity) and the stream writer (over a recording io.Writer and over a bytes writer), each compared byte-for-byte with an independent big-endian encoder and with the advertised length; then decoded by the buffer reader at running offsets (input in a guard-page arena) and by the stream reader over a hostile source (6 fragmentation schedules, zero-byte reads, EOF with data) and over a bytes reader. Exhaustive over all bool/i8/i16 (thorough: all 2^32 i32), boundary string lengths (thorough: every length 0..9000). Non-trivial iff >= 2 kinds, or a string > 4000 bytes, or a fragmenting schedule; distinct by (values, schedule). Also: the bytes-backed writer under the stream writer starts from targets with initial contents / spare capacity. The no-copy length / writer functions without a direct writer are judged like the plain pair; the stream writer also runs over a foreign bufiox.Writer that keeps WriteBinary payloads by reference and reads nothing before Flush. Bytes-writer targets that are non-nil with capacity 0; values appended that already lie in the destination's spare capacity.",
		Required: []string{"values round-tripped", "stream bytes compared", "string-length cases"},
		Quick:    []job{{"plain", 8}},
		Thorough: []job{{"gcstress", 4}, {"plain", 16}, {"race", 4}},
	},
	"C06": {
		Level:    "exploration",
		Rule:     "case = header parameter set (flags, sequence id, protocol id incl. unsupported ones, int/str info maps of 0..200 entries with empty/binary/long keys and values, ACL-token key alone or with others) + payload length, encoded by EncodeToBytes and by Encode over a buffered writer, checked by a strict independent layout parser, decoded by an independent decoder and by the library (bytes-backed and over a hostile fragmenting source); header-info sizes swept exactly over 65536-16..65536+16 in three shapes, every padding residue, all flags (stride in quick), all 256 protocol ids, oversize keys/values/entry counts, parameters beyond 4 GiB, and a writer that refuses its k-th call for every k (Encode must fail). Non-trivial iff >= 1 info entry or size within 64 of the limit; distinct by parameter set + payload length. Also: payloads of 1-5 MiB written through the same writer before the total-length field is filled in, and frames behind more than 1 MiB of unflushed earlier bytes. Every frame is also encoded into a foreign zero-copy bufiox.Writer; the key dictionary holds the persistent / backward forms and near misses of the token key.",
		Required: []string{"frames encoded", "frames round-tripped", "encode errors", "frames with padding", "size-limit cases", "frames with exactly 65536 info bytes", "unsupported-protocol frames"},
		Quick:    []job{{"plain", 8}},
		Thorough: []job{{"gcstress", 4}, {"plain", 16}},
	},
	"C10": {
		Level:    "exploration",
		Rule:     "case = hostile frame bytes decoded by Decode over a bytes reader at two guard-page placements, DecodeFromBytes, and Decode over a fragmenting source, each compared with an independent decoder (reject reasons: magic, declared size outside 2..65536, protocol id, transform count, incomplete section, unknown info id) and, on success, field by field incl. HeaderLen/PayloadLen/maps and bytes consumed. Exhaustive: all 65536 header-size fields x 3 bodies, all flags, all magic half-words, all protocol/info id bytes, all transform counts, string lengths overshooting the info block by 1..4 with and without payload; random: section orders/repeats/interleaved padding with truncations and byte perturbations. Non-trivial: every case (the magic check alone decides only the all-magic stage); distinct by frame bytes.",
		Required: []string{"frames accepted", "frames rejected", "size fields >= 0x4000 tried", "overshooting string lengths", "full truncation sweeps"},
		Quick:    []job{{"plain", 8}},
		Thorough: []job{{"gcstress", 4}, {"plain", 16}, {"asan", 4}, {"fuzz", 3}},
	},
	"C07": {
		Level:    "exploration",
		Rule:     "case = load/reload/query history on StrMap[int], StrMap[struct] and Str2Str instances: key sets of sizes around every entry of the prime table (0..1000, thorough up to 2*10^5) with adversarial key shapes (empty key, all proper prefixes of a long key, shared prefixes/suffixes, one-bit near-duplicates, mixed and equal lengths), LoadFromMap/LoadFromSlice sequences growing and shrinking one instance, failed (length-mismatch) loads in between, never-loaded and empty maps; probes = every key, key +/- one byte, prefixes, suffixes, bit-flips, keys of earlier rounds, random strings; every answer (Get, Len, Item enumeration) compared with a Go map. Fresh instances per case give fresh hash seeds. Non-trivial iff n >= 2 or a reload or an empty/prefix key; distinct by case index (hash seeds differ per instance). Also: loads with one key twice (outside the domain: judged only when refused - a refused load changes nothing). A load that fails with a recovered panic (2^48 key bytes) is a failed load too. One instance reloaded 2^16, 2^17 and 2^16+9 times between two 60-key loads. The struct value type is 88 bytes (ints cover small values).",
		Required: []string{"map queries compared", "failed loads checked", "never-loaded/empty cases", "load cycles"},
		Quick:    []job{{"plain", 8}, {"hooks", 2}},
		Thorough: []job{{"gcstress", 4}, {"plain", 16}, {"race", 4}, {"hooks", 4}},
	},
	"C11": {
		Level:    "exploration",
		Rule:     "case = Base / BaseResp / ApplicationException value (strings of 0..9000 bytes, nil / empty / 1..50-entry maps): BLength vs FastWrite vs FastWriteNocopy(nil) vs FastRead lengths, bytes vs an independent encoder (maps <= 1 entry), value reproduced; then the same value encoded independently with the known fields in a random permutation and 0..6 unknown fields of any type (generated value trees; ids equal to known ids with another type, ids colliding modulo 256, whole int16 range) inserted at every gap, followed by trailing garbage: FastRead must return the exact stream length and undisturbed known fields. Inputs sit in a guard-page arena. Non-trivial iff >= 1 unknown field; distinct by (struct kind, field order, bytes). Also: the direct-writer cases of C15 (FastWriteNocopy with a recording NocopyWriter, field lengths on both sides of the threshold and pairs that straddle it). Half of the BaseResp / ApplicationException reads have further bytes behind the struct.",
		Required: []string{"structs checked", "structs with unknown fields"},
		Quick:    []job{{"plain", 8}},
		Thorough: []job{{"gcstress", 4}, {"plain", 16}},
	},
	"C12": {
		Level:    "exploration",
		Rule:     "case = (method name of 0..70000 arbitrary bytes, message type, sequence id) through WriteMessageBegin / AppendMessageBegin / BufferWriter.WriteMessageBegin vs an independent encoder and MessageBeginLength, read back by Binary.ReadMessageBegin (guard-page arena) and BufferReader.ReadMessageBegin over a fragmenting source; all 65536 message types; all 65536 first-word high halves x 5 low halves (must be accepted iff 0x8001, else BAD_VERSION on both readers); every truncation point and negative name lengths (both readers and UnmarshalFastMsg must fail); MarshalFastMsg -> UnmarshalFastMsg round trips with BaseResp payloads; EXCEPTION messages must surface as *ApplicationException with type id and text and leave the caller's struct untouched (also when the exception body is cut at any point: an error, nothing decoded). Every case is non-trivial; distinct by its parameters. Also: every header is also read from a source holding nothing else (no Read call after its last byte was delivered); an unmarked first word in front of a well-formed header must still be a bad version for both readers and UnmarshalFastMsg. Application-defined payload structs (a linked chain with its own codec, 1..1000 levels deep, byte fields around the no-copy threshold). Exception bodies as other Thrift implementations write them (type id first, unknown fields, empty message omitted). Exception bodies in which other implementations reuse the ids 1 and 2 with other types.",
		Required: []string{"envelopes round-tripped", "first words tried", "truncation sweeps", "messages round-tripped", "exception messages"},
		Quick:    []job{{"plain", 8}},
		Thorough: []job{{"gcstress", 4}, {"plain", 16}},
	},
	"C13": {
		Level:    "exploration",
		Rule:     "case = sequence of 1..5 typed fields (generated value trees of every type, nesting <= 5, any field ids, canonical booleans) encoded by the independent encoder: ConvertUnknownFields must yield exactly the generator-built expected tree (IDs, Type, KeyType/ValType only on containers, element IDs = index, doubles by bit pattern), UnknownFieldsLength must equal the byte count, WriteUnknownFields must reproduce the bytes, and the expected tree must survive write-then-convert. Plus the full 11x11 grid of (container field, following sibling) pairs inside nested structs under 4 wrappings and the container x key x value x size grid. Non-trivial iff a container is present; distinct by field trees. Every generated field list is also written inside a hand-built tree that refers to it three times. The bytes are also fetched through structs that embed the holder by value and by pointer.",
		Required: []string{"field sequences round-tripped", "sibling-tag cases", "combo-grid cases"},
		Quick:    []job{{"plain", 8}},
		Thorough: []job{{"gcstress", 4}, {"plain", 16}},
	},
	"C15": {
		Level:    "exploration",
		Rule:     "case = sequence of 1..8 WriteStringNocopy/WriteBinaryNocopy calls with lengths {0,1,100,4094,4095,4096,4097,8192,12288,20000} (exhaustive over all triples) into a linear buffer that is a window of a larger block (spare capacity 0/1/64), with a recording direct writer whose pieces are spliced independently at len(buf)-remainCap and compared with the copying-path bytes from an independent encoder; returned offset + direct pieces must equal the advertised length; nil writer must be byte-identical to the copying path; Base/BaseResp with every small/large field combination (byte compare when the map has <= 1 entry, decode compare otherwise), FastMarshal. Non-trivial iff >= 1 value >= 4096 with a writer attached; distinct by (length vector, API sequence, spare, writer). Also: values of 1-3 MiB alone and between small neighbours; struct field lengths of 1500-4000 so that a map key and its value straddle the threshold together. Direct writers that are struct values; unset (nil) Base / BaseResp with a direct writer attached. One struct case in forty carries 33-44 map entries whose key and value are above the threshold.",
		Required: []string{"direct pieces spliced", "nocopy sequences", "nil-writer sequences", "struct cases"},
		Quick:    []job{{"plain", 8}},
		Thorough: []job{{"gcstress", 4}, {"plain", 16}},
	},
	"C16": {
		Level:    "exploration",
		Rule:     "case = run of strings/binaries decoded by thrift.Binary (lengths over every span-allocator class: 0, <128, every power of two +-1 up to 128 KiB, larger; runs of 200..800 values wrapping the 1 MiB spans) with the span cache off and on; every returned []byte is appended to and overwritten, then the input buffer is overwritten: input, siblings and snapshots must stay intact, and returned slices (incl. spare capacity) must not overlap the input; stream reader: values of a first message retained across Release, Recycle, pool reuse by a co-tenant and the decoding of a second message through a recycled BufferReader; decoded Base / ApplicationException / unknown-field trees after their input is overwritten. Non-trivial iff length >= 1; distinct by (lengths, reader kind, span-cache setting). Also: 5 MiB (thorough 24 MiB) of values of one size class (0-127, 1-16, 128-255, 1-2 KiB bytes) all kept and re-verified; 3-8 goroutines decoding one size class at once, each overwriting its own byte slices in place (also under the race detector); values decoded by other readers while one stream reader is in the middle of a value that then fails or completes. The concurrent decoders alternate thrift.Binary and one BufferReader per value, and the cache is switched on under GOMAXPROCS(1) in half of the cases. The kept-across-many-blocks runs are repeated through thrift.BufferReader (one reader per 64 KiB of values). The struct stage also keeps the tree of GetUnknownFields and overwrites the holder's bytes.",
		Required: []string{"buffer-decoded values attacked", "stream-decoded values attacked", "structs attacked", "bytes decoded in runs"},
		Quick:    []job{{"plain", 8}, {"race", 2}},
		Thorough: []job{{"gcstress", 4}, {"plain", 16}, {"race", 4}, {"go126", 4}},
	},
	"C17": {
		Level:    "exploration",
		Rule:     "case = (entry point, malformed input) classified by the independent grammar oracle into cause sets {TRUNCATED, NEGATIVE, UNKNOWN_TYPE, DEPTH}: the error of Binary.Skip / Binary.Read* / ReadMessageBegin must be (or wrap) a *ProtocolException whose TypeId is in the accepted set (TRUNCATED, UNKNOWN_TYPE -> INVALID_DATA; NEGATIVE -> NEGATIVE_SIZE; bad first word -> BAD_VERSION; nesting >= 64 -> also DEPTH_LIMIT; simultaneous causes -> any). Inputs: grammar-alphabet strings (exhaustive), mutated encodings, negative sizes in every size position for all 11x11 element types, nesting 60..70. Stream reader: valid streams cut at every position with every injected error value (io.EOF, io.ErrUnexpectedEOF, two custom) with/after the final data: errors.Is(err, sourceErr) must hold for every Read*/Skip. Every case is a failure-class instance; distinct by (input, type). Also: stream failures after runs of 1..99 empty reads between the last data and the error. The stream runs release the reader between values now and then. Half of the releases between values pass a non-nil reason to Release. A fixed-size scalar read that failed is tried again three times on the same reader.",
		Required: []string{"skip failures classified", "reader failures classified", "message-begin failures classified", "stream failures classified", "negative-size cases", "source-error sweeps"},
		Quick:    []job{{"plain", 8}},
		Thorough: []job{{"gcstress", 4}, {"plain", 16}},
	},
	"C18": {
		Level:    "exploration",
		Rule:     "case = error term built from {plain, fmt.Errorf(%w) chain, transport, protocol, application, foreign exception with TypeId(), foreign type embedding *ApplicationException, protocol exception wrapping any of these} with type ids over the default-message table, boundaries and random int32, empty and colliding texts, and a prefix (empty or not): PrependError must keep the exception kind class, the type id and produce prefix+text; NewProtocolExceptionWithErr must be the identity on protocol exceptions and otherwise keep errors.Unwrap(result)==cause and errors.Is(result, cause); errors.Is(receiver, target) over all ordered pairs of a pool (with look-alikes of equal / off-by-one type id and text in every kind) must equal the statement's definition evaluated by a small recursive model. Exhaustive kind x id x empty/non-empty text x empty/non-empty prefix grid. Every case is non-trivial; distinct by term description. The foreign kinds include an exception that implements fmt.Formatter.",
		Required: []string{"prepend cases", "wrappers built", "is-pairs compared", "is-pairs matching"},
		Quick:    []job{{"plain", 8}},
		Thorough: []job{{"gcstress", 4}, {"plain", 16}},
	},
	"C19": {
		Level:    "exploration",
		Rule:     "case = random history of {Write, Read, ReadByte, Reset/Close, Truncate, IsOpen/Open/Flush} applied through the transport handle or the *bytes.Buffer handle of a buffer transport (created by NewBufferTransport or NewDefaultTransport) whose bytes.Buffer is embedded between a neighbouring buffer and live data; after every step transport, buffer and a plain bytes.Buffer model must agree (contents, Len, RemainingBytes) and adjacent memory must be intact; generic transport RemainingBytes for ReadableLen values {minInt..maxInt} and objects without ReadableLen; registered callbacks must receive the identical arguments and return the callback's result, unregistered ones three specific errors. Non-trivial iff both handles are used; distinct by history. Registered callbacks are also called with nil reader / writer / value.",
		Required: []string{"buffer histories", "generic transport cases", "callback cases"},
		Quick:    []job{{"plain", 4}, {"race", 2}},
		Thorough: []job{{"gcstress", 4}, {"plain", 16}, {"race", 4}},
	},
	"C20": {
		Level:    "exploration",
		Rule:     "case = (conversion variant: the compiled go1.21+ file and the legacy pre-go1.21 file copied from /repo at check time, input shape): every length 0..300 and classes up to 1 MiB, byte slices with spare capacity 0/1/48, substrings at several offsets of a larger string backed by a mutable heap block with canary bytes; checks content, length, shared data pointer (a write through the slice is visible through the string), cap(StringToBinary(s)) == len(s), and that append(StringToBinary(s), ...) leaves the enclosing memory unchanged; nil / empty / zero-length-subslice inputs must not panic and must yield empty results. Non-trivial iff len >= 1 or the nil/empty distinction; distinct by (variant, shape). A third conversion variant passes an argument of a named slice type. Lengths off the page grid (32769, 40001, 70001, 131071..131077, 204803).",
		Required: []string{"conversions checked", "empty/nil inputs checked"},
		Quick:    []job{{"plain", 2}, {"race", 2}},
		Thorough: []job{{"gcstress", 4}, {"plain", 4}, {"race", 2}, {"asan", 2}, {"go126", 2}},
	},
	"C14": {
		Level:       "exploration",
		Rule:        "case = one execution: G goroutines (8..64) at GOMAXPROCS 2..16, each running hundreds of create/use/release cycles of every pooled type (BufferWriter/BufferReader over DefaultWriter/DefaultReader with yielding sinks and sources, the three skip decoders incl. values > 4 KiB, TTHeader bytes- and stream-backed, Binary.ReadString/ReadBinary with the span allocator on, FastMarshal/FastUnmarshal, MarshalFastMsg) with payload bytes that encode (goroutine, iteration, offset), plus Get/Item/Len on freshly loaded shared maps whose first lookups happen concurrently. Oracles: the Go race detector (reports parsed from the log, de-duplicated by stack pair) and each goroutine's comparison with its own expected bytes. The monitor keeps only goroutine-local state until the join, so it adds no synchronisation. Builds: -race, -race with the yield-injecting pool shim (thorough), plain at 10x iterations (contamination only). Non-trivial iff pooled objects were observed in >= 2 goroutines in that execution; distinct by (build, G, P, repetition, seed). Also: acquire/release storms - all goroutines do nothing but take, use once and release one pooled type (the three skip decoders, BufferReader, BufferWriter) - with an ownership monitor (one atomic cell per object address, claimed on leaving the constructor, cleared before Release/Recycle). One execution in four loads a shared map of about 290000 keys last and queries it first; the failing cycle checks that a failed FastRead's error names its own struct once and does not change.",
		Required:    []string{"pooled objects used by >= 2 goroutines", "executions", "cycles writer+reader", "cycles skip-decoders", "cycles ttheader", "cycles binary+fastcodec", "cycles shared-maps", "cycles own-maps", "cycles peek-retain", "cycles unknown-fields", "cycles shared-header-param"},
		Assumptions: []string{"absence of a race report says nothing about interleavings that were not produced"},
		Quick:       []job{{"race", 4}, {"plain", 2}},
		Thorough:    []job{{"race", 12}, {"yield", 6}, {"plain", 6}, {"go126-race", 6}}, // (no gcstress: clobberfree touches every freed buffer of 64 goroutines, RSS only)
	},
}

func init() {
	for k, p := range plans {
		p.Assumptions = append(append([]string{}, commonAssumptions...), p.Assumptions...)
		plans[k] = p
	}
}
