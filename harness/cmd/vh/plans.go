package main

type plan struct {
	Level       string // evidence level
	Rule        string
	Assumptions []string
	Required    []string // observation counters that must be > 0
	Quick       []job
	Thorough    []job
}

var commonAssumptions = []string{
	"the reference models in /verif/harness/ref are correct renderings of the Thrift Binary / TTHeader wire formats",
	"linux/amd64, 64-bit int; the Go toolchain, race detector and ASan runtime are trusted",
	"only the executions listed here were observed; nothing is claimed about cases that were not generated",
}

var plans = map[string]plan{
	"C08": {
		Level:    "exploration",
		Rule:     "case = (requested type, input bytes) run through all 5 skipping facilities (7 configurations); inputs: bounded-exhaustive strings over a 15-symbol grammar alphabet, mutated valid encodings (truncate/substitute/size-window/splice/insert/delete), huge size fields, nesting 1..70 per container kind. Non-trivial iff the oracle rejects the input or accepts it with nesting >= 2; distinct by (type, bytes).",
		Required: []string{"oracle-accept judged", "oracle-reject judged", "nesting>=65 cases"},
		Quick:    []job{{"plain", 8}},
		Thorough: []job{{"plain", 16}, {"race", 4}},
	},
}

func init() {
	for k, p := range plans {
		p.Assumptions = append(append([]string{}, commonAssumptions...), p.Assumptions...)
		plans[k] = p
	}
}
