// Package fuzz holds the Go native fuzz targets of the thorough tier. Their bodies are the
// same monitors the deterministic stages use; the fuzzer only supplies coverage-guided inputs.
package fuzz

import (
	"os"
	"strconv"
	"testing"

	"verifharness/mon"
)

func seed() int64 {
	v, _ := strconv.ParseInt(os.Getenv("VERIF_SEED"), 10, 64)
	if v == 0 {
		v = 1
	}
	return v
}

func target(f *testing.F, prop string) {
	for i, b := range mon.FuzzSeeds(prop, seed(), 200) {
		f.Add(b, byte(12+i%4))
		if i%5 == 0 && len(b) > 1 {
			f.Add(b[:len(b)/2], byte(0x80|i))
		}
	}
	f.Add([]byte{}, byte(0))
	f.Add([]byte{0x80, 0, 1, 0, 0}, byte(12))
	f.Fuzz(func(t *testing.T, b []byte, ty byte) {
		if len(b) > 2048 {
			return
		}
		if v := mon.FuzzOne(prop, b, ty); v != "" {
			t.Fatalf("VIOLATION %s", v)
		}
	})
}

func FuzzC03(f *testing.F) { target(f, "C03") }
func FuzzC08(f *testing.F) { target(f, "C08") }
func FuzzC10(f *testing.F) { target(f, "C10") }
