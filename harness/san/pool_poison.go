//go:build poisonshim

package san

import "github.com/bytedance/gopkg/lang/mcache"

// PoolShim is true when the build replaced the buffer pool by the poisoning shim.
const PoolShim = true

func PoolReset()                 { mcache.Reset() }
func PoolFaults() []string       { return mcache.CheckQuarantine() }
func PoolInFreed(b []byte) bool  { return mcache.InFreed(b) }
func PoolInLive(b []byte) bool   { return mcache.InLive(b) }
func PoolStats() (int, int, int) { return mcache.Stats() }
func PoolMalloc(n int) []byte    { return mcache.Malloc(n) }
func PoolFree(b []byte)          { mcache.Free(b) }
