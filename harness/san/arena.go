// Package san holds the sanitizers written for this harness: the guard-page arena and canaries.
package san

import (
	"fmt"
	"runtime/debug"
	"syscall"
	"unsafe"
)

const pageSize = 4096

// Arena is an mmap'd region bracketed by two PROT_NONE pages. Inputs are placed so that they
// end exactly at the trailing guard page (over-reads fault) or start exactly after the
// leading one (under-reads fault). With debug.SetPanicOnFault the fault is a recoverable
// runtime.Error.
type Arena struct {
	mem  []byte // whole mapping
	body []byte // usable part
}

// NewArena maps room for inputs up to size bytes.
func NewArena(size int) *Arena {
	pages := (size + pageSize - 1) / pageSize
	if pages == 0 {
		pages = 1
	}
	total := (pages + 2) * pageSize
	mem, err := syscall.Mmap(-1, 0, total, syscall.PROT_READ|syscall.PROT_WRITE, syscall.MAP_ANON|syscall.MAP_PRIVATE)
	if err != nil {
		panic(fmt.Sprintf("san: mmap: %v", err))
	}
	if err := syscall.Mprotect(mem[:pageSize], syscall.PROT_NONE); err != nil {
		panic(err)
	}
	if err := syscall.Mprotect(mem[total-pageSize:], syscall.PROT_NONE); err != nil {
		panic(err)
	}
	debug.SetPanicOnFault(true)
	return &Arena{mem: mem, body: mem[pageSize : total-pageSize]}
}

func (a *Arena) Cap() int { return len(a.body) }

// AtEnd copies b so that it ends at the trailing guard page; cap == len.
func (a *Arena) AtEnd(b []byte) []byte {
	if len(b) > len(a.body) {
		panic("san: input larger than arena")
	}
	off := len(a.body) - len(b)
	dst := a.body[off:len(a.body):len(a.body)]
	copy(dst, b)
	return dst
}

// AtStart copies b so that it starts right after the leading guard page; cap == len.
func (a *Arena) AtStart(b []byte) []byte {
	if len(b) > len(a.body) {
		panic("san: input larger than arena")
	}
	dst := a.body[0:len(b):len(b)]
	copy(dst, b)
	return dst
}

// EmptyAtEnd returns a zero-length slice whose data pointer is the last valid byte address+1-1:
// a non-nil empty slice pointing at the final byte so that any dereference beyond faults.
func (a *Arena) EmptyAtEnd() []byte {
	return a.body[len(a.body)-1 : len(a.body)-1 : len(a.body)-1]
}

// InGuard reports whether addr lies in one of the guard pages.
func (a *Arena) InGuard(addr uintptr) bool {
	base := uintptr(unsafe.Pointer(&a.mem[0]))
	if addr >= base && addr < base+pageSize {
		return true
	}
	end := base + uintptr(len(a.mem))
	return addr >= end-pageSize && addr < end
}

func (a *Arena) Free() {
	syscall.Munmap(a.mem)
	a.mem, a.body = nil, nil
}

// IsFault reports whether a recovered panic value is a memory fault (guard page hit).
func IsFault(r interface{}) (uintptr, bool) {
	type addrer interface{ Addr() uintptr }
	if e, ok := r.(addrer); ok {
		return e.Addr(), true
	}
	return 0, false
}

// Canary wraps a caller-owned buffer with patterned margins and patterned spare capacity.
type Canary struct {
	block  []byte
	off    int
	length int
	capa   int
	copyB  []byte
}

const canaryMargin = 64

func canaryByte(i int) byte { return byte(0xA5 ^ (i * 7)) }

// NewCanary allocates a buffer of the given len/cap inside a larger block.
func NewCanary(length, capa int, fill func(i int) byte) *Canary {
	if capa < length {
		capa = length
	}
	block := make([]byte, capa+2*canaryMargin)
	for i := range block {
		block[i] = canaryByte(i)
	}
	c := &Canary{block: block, off: canaryMargin, length: length, capa: capa}
	for i := 0; i < length; i++ {
		block[canaryMargin+i] = fill(i)
	}
	c.copyB = append([]byte(nil), block...)
	return c
}

// Buf returns the buffer with exactly the requested len and cap.
func (c *Canary) Buf() []byte { return c.block[c.off : c.off+c.length : c.off+c.capa] }

// Snapshot re-records the current block contents as the expected state.
func (c *Canary) Snapshot() { c.copyB = append(c.copyB[:0], c.block...) }

// Expect declares that the first n bytes of the buffer are now supposed to equal want[:n].
func (c *Canary) Expect(want []byte) {
	copy(c.copyB[c.off:], want)
}

// Check compares the whole block (margins, contents, spare capacity) with the private copy.
// It returns the offset relative to the buffer start of the first difference, or ok.
func (c *Canary) Check() (int, bool) {
	for i := range c.block {
		if c.block[i] != c.copyB[i] {
			return i - c.off, false
		}
	}
	return 0, true
}

// Range returns the address range of the whole block.
func (c *Canary) Range() (uintptr, uintptr) {
	p := uintptr(unsafe.Pointer(&c.block[0]))
	return p, p + uintptr(len(c.block))
}

// Overlaps reports whether two byte slices (over their capacity) share memory.
func Overlaps(a, b []byte) bool {
	if cap(a) == 0 || cap(b) == 0 {
		return false
	}
	a0 := uintptr(unsafe.Pointer(unsafe.SliceData(a)))
	b0 := uintptr(unsafe.Pointer(unsafe.SliceData(b)))
	return a0 < b0+uintptr(cap(b)) && b0 < a0+uintptr(cap(a))
}

// OverlapsLen is Overlaps restricted to len (not cap).
func OverlapsLen(a, b []byte) bool {
	if len(a) == 0 || len(b) == 0 {
		return false
	}
	a0 := uintptr(unsafe.Pointer(unsafe.SliceData(a)))
	b0 := uintptr(unsafe.Pointer(unsafe.SliceData(b)))
	return a0 < b0+uintptr(len(b)) && b0 < a0+uintptr(len(a))
}

// PoolChurn takes one buffer of every size class 1..maxClass twice from the shared pool,
// overwrites it and gives it back: what an io.Reader that uses the pool for scratch space does.
func PoolChurn(maxClass int) {
	for c := 1; c <= maxClass; c *= 2 {
		for k := 0; k < 2; k++ {
			b := PoolMalloc(c)
			full := b[:cap(b)]
			if len(full) <= 65536 {
				for i := range full {
					full[i] = 0xEE
				}
			} else {
				for i := 0; i < 4096; i++ {
					full[i], full[len(full)-1-i] = 0xEE, 0xEE
				}
				for i := 0; i < len(full); i += 4096 {
					full[i] = 0xEE
				}
			}
			PoolFree(b)
		}
	}
}

// Virtual maps n bytes of untouched anonymous zero pages (address space, not memory) and returns
// them with the function that unmaps them.
func Virtual(n int) ([]byte, func()) {
	mem, err := syscall.Mmap(-1, 0, n, syscall.PROT_READ|syscall.PROT_WRITE, syscall.MAP_ANON|syscall.MAP_PRIVATE|syscall.MAP_NORESERVE)
	if err != nil {
		panic(fmt.Sprintf("san.Virtual(%d): %v", n, err))
	}
	return mem, func() { _ = syscall.Munmap(mem) }
}

// ROArena is an arena whose body is read-only while the library runs: Set copies an input in (ending at
// the trailing guard page) and write-protects the pages again. A store into the input is then a
// recoverable fault whose address lies in the body (InBody), not in a guard page.
type ROArena struct {
	a *Arena
}

func NewROArena(size int) *ROArena { return &ROArena{a: NewArena(size)} }

func (r *ROArena) Cap() int { return r.a.Cap() }

// Set places b (len >= 1) read-only at the end of the arena.
func (r *ROArena) Set(b []byte) []byte {
	if err := syscall.Mprotect(r.a.body, syscall.PROT_READ|syscall.PROT_WRITE); err != nil {
		panic(err)
	}
	out := r.a.AtEnd(b)
	if err := syscall.Mprotect(r.a.body, syscall.PROT_READ); err != nil {
		panic(err)
	}
	return out
}

// InBody reports whether addr lies in the write-protected body.
func (r *ROArena) InBody(addr uintptr) bool {
	base := uintptr(unsafe.Pointer(&r.a.body[0]))
	return addr >= base && addr < base+uintptr(len(r.a.body))
}
