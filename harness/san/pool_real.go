//go:build !poisonshim

package san

import "github.com/bytedance/gopkg/lang/mcache"

// PoolShim is true when the build replaced the buffer pool by the poisoning shim.
const PoolShim = false

func PoolReset()                 {}
func PoolFaults() []string       { return nil }
func PoolInFreed(b []byte) bool  { return false }
func PoolInLive(b []byte) bool   { return false }
func PoolStats() (int, int, int) { return 0, 0, 0 }
func PoolMalloc(n int) []byte    { return mcache.Malloc(n) }
func PoolFree(b []byte)          { mcache.Free(b) }
