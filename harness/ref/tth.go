package ref

import (
	"encoding/binary"
	"fmt"
)

// TTHeader layout oracle, written from the frame diagram:
//   [0:4] total length  [4:6] magic 0x1000  [6:8] flags  [8:12] sequence id
//   [12:14] header-info size / 4, then the header info:
//   protocol id (u8), number of transforms (u8), transform ids (u8 each),
//   info sections: id u8 { 0x00 padding | 0x01 str KV: u16 count, (str2 key, str2 val)* |
//   0x10 int KV: u16 count, (u16 key, str2 val)* | 0x11 ACL token: str2 }, padded with zero bytes to a multiple of 4.

const (
	TTHMetaSize      = 14
	TTHMaxHeaderSize = 65536
	// TokenKey is the string-info key under which the ACL token travels.
	TokenKey = "RPC_TRANSIT_gdpr-token"
)

var SupportedProtocols = map[byte]bool{0x00: true, 0x03: true, 0x04: true, 0x10: true, 0x11: true}

type TTHDecoded struct {
	Flags      uint16
	SeqID      int32
	ProtocolID byte
	IntInfo    map[uint16]string
	StrInfo    map[string]string
	HeaderLen  int
	PayloadLen int64
	// layout facts (used by the strict encoder-output checker)
	Sections      []byte // ids of the sections in order
	SectionCounts []int
	PaddingRun    int  // trailing zero bytes after the last section
	InnerPadding  bool // a padding byte before some section
	NTransforms   int
}

// TTHDecode is the independent decoder. reason is non-empty on rejection.
func TTHDecode(b []byte) (d TTHDecoded, reason string) {
	if len(b) < TTHMetaSize {
		return d, "short-meta"
	}
	if binary.BigEndian.Uint32(b[4:8])&0xffff0000 != 0x10000000 {
		return d, "bad-magic"
	}
	total := binary.BigEndian.Uint32(b[0:4])
	d.Flags = binary.BigEndian.Uint16(b[6:8])
	d.SeqID = int32(binary.BigEndian.Uint32(b[8:12]))
	size := int(binary.BigEndian.Uint16(b[12:14])) * 4
	if size < 2 || size > TTHMaxHeaderSize {
		return d, "bad-size"
	}
	if len(b)-TTHMetaSize < size {
		return d, "short-info"
	}
	info := b[TTHMetaSize : TTHMetaSize+size]
	d.ProtocolID = info[0]
	if !SupportedProtocols[info[0]] {
		return d, "bad-protocol"
	}
	nt := int(info[1])
	d.NTransforms = nt
	if size-2 < nt {
		return d, "transforms"
	}
	idx := 2 + nt
	str2 := func() (string, bool) {
		if len(info)-idx < 2 {
			return "", false
		}
		l := int(binary.BigEndian.Uint16(info[idx:]))
		idx += 2
		if len(info)-idx < l {
			return "", false
		}
		s := string(info[idx : idx+l])
		idx += l
		return s, true
	}
	pendingPad := 0
	for idx < len(info) {
		id := info[idx]
		idx++
		switch id {
		case 0x00:
			pendingPad++
			continue
		case 0x01:
			if len(info)-idx < 2 {
				return d, "incomplete-section"
			}
			n := int(binary.BigEndian.Uint16(info[idx:]))
			idx += 2
			if d.StrInfo == nil {
				d.StrInfo = map[string]string{}
			}
			for i := 0; i < n; i++ {
				k, ok := str2()
				if !ok {
					return d, "incomplete-section"
				}
				v, ok := str2()
				if !ok {
					return d, "incomplete-section"
				}
				d.StrInfo[k] = v
			}
			d.SectionCounts = append(d.SectionCounts, n)
		case 0x10:
			if len(info)-idx < 2 {
				return d, "incomplete-section"
			}
			n := int(binary.BigEndian.Uint16(info[idx:]))
			idx += 2
			if d.IntInfo == nil {
				d.IntInfo = map[uint16]string{}
			}
			for i := 0; i < n; i++ {
				if len(info)-idx < 2 {
					return d, "incomplete-section"
				}
				k := binary.BigEndian.Uint16(info[idx:])
				idx += 2
				v, ok := str2()
				if !ok {
					return d, "incomplete-section"
				}
				d.IntInfo[k] = v
			}
			d.SectionCounts = append(d.SectionCounts, n)
		case 0x11:
			v, ok := str2()
			if !ok {
				return d, "incomplete-section"
			}
			if d.StrInfo == nil {
				d.StrInfo = map[string]string{}
			}
			d.StrInfo[TokenKey] = v
			d.SectionCounts = append(d.SectionCounts, 1)
		default:
			return d, fmt.Sprintf("unknown-info-id")
		}
		if pendingPad > 0 {
			d.InnerPadding = true
			pendingPad = 0
		}
		d.Sections = append(d.Sections, id)
	}
	d.PaddingRun = pendingPad
	d.HeaderLen = TTHMetaSize + size
	d.PayloadLen = int64(total) + 4 - int64(d.HeaderLen)
	return d, ""
}

// TTHCheckLayout is the strict checker for encoder output: frame must be exactly the
// header (len == 14 + size field * 4) produced for the given parameters.
// It returns a list of layout defects (empty = conforming) and a list of observations
// that the documented layout does not fix (never judged).
func TTHCheckLayout(frame []byte, flags uint16, seq int32, proto byte, intInfo map[uint16]string, strInfo map[string]string) (defects, observations []string, d TTHDecoded) {
	if len(frame) < TTHMetaSize {
		return []string{"frame shorter than the 14-byte meta block"}, nil, d
	}
	if binary.BigEndian.Uint16(frame[4:6]) != 0x1000 {
		defects = append(defects, "magic != 0x1000")
	}
	if binary.BigEndian.Uint16(frame[6:8]) != flags {
		defects = append(defects, "flags field differs")
	}
	if int32(binary.BigEndian.Uint32(frame[8:12])) != seq {
		defects = append(defects, "sequence id field differs")
	}
	size := int(binary.BigEndian.Uint16(frame[12:14])) * 4
	if 14+size != len(frame) {
		defects = append(defects, fmt.Sprintf("size field*4 = %d but %d header-info bytes were written", size, len(frame)-14))
	}
	if (len(frame)-14)%4 != 0 {
		defects = append(defects, "header info not padded to a multiple of 4")
	}
	if len(frame)-14 > TTHMaxHeaderSize {
		defects = append(defects, "header info larger than 65536 bytes")
	}
	if len(frame) >= 16 {
		if frame[14] != proto {
			defects = append(defects, "protocol id byte differs")
		}
		if frame[15] != 0 {
			defects = append(defects, "transform count != 0")
		}
	}
	if len(defects) > 0 {
		return defects, nil, d
	}
	var reason string
	// protocol ids outside the allow-list are legal for the encoder: decode with the check relaxed
	tmp := append([]byte(nil), frame...)
	if !SupportedProtocols[proto] {
		tmp[14] = 0
	}
	d, reason = TTHDecode(tmp)
	d.ProtocolID = proto
	if reason != "" {
		return []string{"info sections do not parse: " + reason}, nil, d
	}
	if d.InnerPadding {
		defects = append(defects, "padding byte before a section (padding must follow the last section)")
	}
	if d.PaddingRun >= 4 {
		observations = append(observations, "padding-run>=4")
	}
	// maps
	if len(d.IntInfo) != len(intInfo) {
		defects = append(defects, fmt.Sprintf("int info: %d entries encoded, %d given", len(d.IntInfo), len(intInfo)))
	} else {
		for k, v := range intInfo {
			if dv, ok := d.IntInfo[k]; !ok || dv != v {
				defects = append(defects, fmt.Sprintf("int info key %d differs", k))
				break
			}
		}
	}
	if len(d.StrInfo) != len(strInfo) {
		defects = append(defects, fmt.Sprintf("str info: %d entries encoded, %d given", len(d.StrInfo), len(strInfo)))
	} else {
		for k, v := range strInfo {
			if dv, ok := d.StrInfo[k]; !ok || dv != v {
				defects = append(defects, fmt.Sprintf("str info key %q differs", k))
				break
			}
		}
	}
	// section counts and kinds
	_, hasTok := strInfo[TokenKey]
	nStr := len(strInfo)
	if hasTok {
		nStr--
	}
	var cStr, cInt, cTok, sStr, sInt int
	order := ""
	for i, id := range d.Sections {
		switch id {
		case 0x01:
			cStr += d.SectionCounts[i]
			sStr++
			order += "s"
		case 0x10:
			cInt += d.SectionCounts[i]
			sInt++
			order += "i"
		case 0x11:
			cTok++
			order += "t"
		}
	}
	if cStr != nStr {
		defects = append(defects, fmt.Sprintf("string section declares %d entries for %d keys", cStr, nStr))
	}
	if cInt != len(intInfo) {
		defects = append(defects, fmt.Sprintf("int section declares %d entries for %d keys", cInt, len(intInfo)))
	}
	if hasTok && cTok != 1 {
		defects = append(defects, fmt.Sprintf("token key present but %d token sections", cTok))
	}
	if !hasTok && cTok != 0 {
		defects = append(defects, "token section without token key")
	}
	if sStr > 1 || sInt > 1 {
		observations = append(observations, "repeated-section")
	}
	switch order {
	case "", "t", "s", "i", "ts", "ti", "si", "tsi":
	default:
		observations = append(observations, "section-order-"+order)
	}
	return defects, observations, d
}

// TTHEncode builds a frame independently (used to make hostile/valid frames for the decoder).
// sections is a list of pre-built section byte strings placed in order; pad adds zero bytes.
func TTHEncode(total uint32, magic uint16, flags uint16, seq int32, sizeField uint16, info []byte) []byte {
	b := make([]byte, 0, 14+len(info))
	b = U32(b, total)
	b = U16(b, magic)
	b = U16(b, flags)
	b = U32(b, uint32(seq))
	b = U16(b, sizeField)
	return append(b, info...)
}

func TTHStr2(b []byte, s string) []byte { return append(U16(b, uint16(len(s))), s...) }
