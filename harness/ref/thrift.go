// Package ref holds the independent reference models (oracles). Nothing here imports
// cloudwego/gopkg: everything is written from the wire-format description.
package ref

import (
	"encoding/binary"
	"math"
)

// Thrift type tags.
const (
	STOP   = 0
	BOOL   = 2
	BYTE   = 3
	DOUBLE = 4
	I16    = 6
	I32    = 8
	I64    = 10
	STRING = 11
	STRUCT = 12
	MAP    = 13
	SET    = 14
	LIST   = 15
)

// KnownTypes are the value types of the Thrift Binary protocol.
var KnownTypes = []byte{BOOL, BYTE, DOUBLE, I16, I32, I64, STRING, STRUCT, MAP, SET, LIST}

func Known(t byte) bool {
	switch t {
	case BOOL, BYTE, DOUBLE, I16, I32, I64, STRING, STRUCT, MAP, SET, LIST:
		return true
	}
	return false
}

// FixedSize returns the encoded size of a fixed-size type, 0 otherwise.
func FixedSize(t byte) int {
	switch t {
	case BOOL, BYTE:
		return 1
	case I16:
		return 2
	case I32:
		return 4
	case I64, DOUBLE:
		return 8
	}
	return 0
}

// ---------------------------------------------------------------------------------------
// Encoder

func U16(b []byte, v uint16) []byte { return append(b, byte(v>>8), byte(v)) }
func U32(b []byte, v uint32) []byte { return append(b, byte(v>>24), byte(v>>16), byte(v>>8), byte(v)) }
func U64(b []byte, v uint64) []byte {
	return append(b, byte(v>>56), byte(v>>48), byte(v>>40), byte(v>>32), byte(v>>24), byte(v>>16), byte(v>>8), byte(v))
}
func EncBool(b []byte, v bool) []byte {
	if v {
		return append(b, 1)
	}
	return append(b, 0)
}
func EncByte(b []byte, v int8) []byte                    { return append(b, byte(v)) }
func EncI16(b []byte, v int16) []byte                    { return U16(b, uint16(v)) }
func EncI32(b []byte, v int32) []byte                    { return U32(b, uint32(v)) }
func EncI64(b []byte, v int64) []byte                    { return U64(b, uint64(v)) }
func EncDouble(b []byte, v float64) []byte               { return U64(b, math.Float64bits(v)) }
func EncString(b []byte, s string) []byte                { return append(U32(b, uint32(len(s))), s...) }
func EncBinary(b []byte, s []byte) []byte                { return append(U32(b, uint32(len(s))), s...) }
func EncFieldBegin(b []byte, t byte, id int16) []byte    { return U16(append(b, t), uint16(id)) }
func EncFieldStop(b []byte) []byte                       { return append(b, 0) }
func EncMapBegin(b []byte, kt, vt byte, n uint32) []byte { return U32(append(b, kt, vt), n) }
func EncListBegin(b []byte, et byte, n uint32) []byte    { return U32(append(b, et), n) }
func EncMessageBegin(b []byte, name string, mtype int32, seq int32) []byte {
	b = U32(b, 0x80010000|uint32(mtype)&0xffff)
	b = EncString(b, name)
	return U32(b, uint32(seq))
}

// ---------------------------------------------------------------------------------------
// Typed value trees (the generator's representation)

// Value is a Thrift value. Scalars use the field matching T.
type Value struct {
	T      byte
	Bool   bool
	I      int64   // BYTE, I16, I32, I64
	F      uint64  // DOUBLE as bits
	S      []byte  // STRING
	KT, VT byte    // MAP key/value types; VT is element type for LIST/SET
	Elems  []Value // LIST/SET elements; MAP: k0,v0,k1,v1...
	Fields []Field // STRUCT
	// RawBool, when nonzero, is the byte written for a BOOL (non-canonical booleans)
	RawBool byte
}

type Field struct {
	ID int16
	V  Value
}

// Encode appends the Thrift Binary encoding of v.
func (v *Value) Encode(b []byte) []byte {
	switch v.T {
	case BOOL:
		if v.RawBool != 0 {
			return append(b, v.RawBool)
		}
		return EncBool(b, v.Bool)
	case BYTE:
		return append(b, byte(v.I))
	case I16:
		return U16(b, uint16(v.I))
	case I32:
		return U32(b, uint32(v.I))
	case I64:
		return U64(b, uint64(v.I))
	case DOUBLE:
		return U64(b, v.F)
	case STRING:
		return EncBinary(b, v.S)
	case STRUCT:
		for i := range v.Fields {
			f := &v.Fields[i]
			b = EncFieldBegin(b, f.V.T, f.ID)
			b = f.V.Encode(b)
		}
		return append(b, 0)
	case MAP:
		b = EncMapBegin(b, v.KT, v.VT, uint32(len(v.Elems)/2))
		for i := range v.Elems {
			b = v.Elems[i].Encode(b)
		}
		return b
	case SET, LIST:
		b = EncListBegin(b, v.VT, uint32(len(v.Elems)))
		for i := range v.Elems {
			b = v.Elems[i].Encode(b)
		}
		return b
	}
	panic("ref: bad value type")
}

// Len is the encoded length computed structurally (not by encoding).
func (v *Value) Len() int {
	switch v.T {
	case BOOL, BYTE:
		return 1
	case I16:
		return 2
	case I32:
		return 4
	case I64, DOUBLE:
		return 8
	case STRING:
		return 4 + len(v.S)
	case STRUCT:
		n := 1
		for i := range v.Fields {
			n += 3 + v.Fields[i].V.Len()
		}
		return n
	case MAP:
		n := 6
		for i := range v.Elems {
			n += v.Elems[i].Len()
		}
		return n
	case SET, LIST:
		n := 5
		for i := range v.Elems {
			n += v.Elems[i].Len()
		}
		return n
	}
	panic("ref: bad value type")
}

// Nesting returns the container nesting depth (0 for scalars/strings).
func (v *Value) Nesting() int {
	m := 0
	switch v.T {
	case STRUCT:
		for i := range v.Fields {
			if d := v.Fields[i].V.Nesting(); d > m {
				m = d
			}
		}
		return m + 1
	case MAP, SET, LIST:
		for i := range v.Elems {
			if d := v.Elems[i].Nesting(); d > m {
				m = d
			}
		}
		return m + 1
	}
	return 0
}

// ---------------------------------------------------------------------------------------
// Grammar oracle

// Cause bits.
const (
	CTrunc = 1 << iota
	CNeg
	CUnknown
	CDepth
)

// ParseResult is the oracle's verdict on "is a complete well-formed value of type t at b[0:]".
type ParseResult struct {
	OK          bool
	N           int    // extent when OK
	FailOff     int    // offset where parsing failed
	Causes      int    // set of causes that hold at the failing position
	FailNesting int    // number of containers open at the failure (incl. the failing one if a container header)
	MaxNesting  int    // deepest container nesting entered
	MaxDeclared int64  // largest size field met (strings and containers)
	MaxAsk      uint64 // largest byte count a streaming skipper may request/buffer in one go (size fields read as unsigned)
	DontCare    bool   // empty container with unknown element type met
	TooDeep     bool   // the oracle's own recursion cap was hit
	DeepOff     int    // offset of the first container header at nesting 65 (-1: never reached)
}

const oracleDepthCap = 400

type parser struct {
	b []byte
	r *ParseResult
}

func (p *parser) fail(off, causes, nesting int) (int, bool) {
	p.r.FailOff = off
	p.r.Causes |= causes
	p.r.FailNesting = nesting
	return 0, false
}

func (p *parser) ask(n uint64) {
	if n > p.r.MaxAsk {
		p.r.MaxAsk = n
	}
}

func (p *parser) declared(n int64) {
	if n > p.r.MaxDeclared {
		p.r.MaxDeclared = n
	}
}

// value parses a value of type t at offset off with `nesting` containers already open.
func (p *parser) value(off int, t byte, nesting int) (int, bool) {
	b := p.b
	rem := len(b) - off
	if n := FixedSize(t); n > 0 {
		if rem < n {
			return p.fail(off, CTrunc, nesting)
		}
		return n, true
	}
	switch t {
	case STRING:
		if rem < 4 {
			return p.fail(off, CTrunc, nesting)
		}
		l := int32(binary.BigEndian.Uint32(b[off:]))
		p.ask(uint64(uint32(l)))
		if l < 0 {
			return p.fail(off, CNeg, nesting)
		}
		p.declared(int64(l))
		if rem-4 < int(l) {
			return p.fail(off, CTrunc, nesting)
		}
		return 4 + int(l), true
	case STRUCT:
		nesting++
		if nesting > p.r.MaxNesting {
			p.r.MaxNesting = nesting
		}
		if nesting == 65 && p.r.DeepOff < 0 && rem > 0 {
			// (with no byte left the 65th container is demanded by the grammar but not met: truncation and
			// depth are then both causes, in either order)
			p.r.DeepOff = off
		}
		if nesting > oracleDepthCap {
			p.r.TooDeep = true
			return p.fail(off, CDepth, nesting)
		}
		o := off
		for {
			if len(b)-o < 1 {
				return p.fail(o, CTrunc, nesting)
			}
			ft := b[o]
			o++
			if ft == STOP {
				return o - off, true
			}
			if len(b)-o < 2 {
				c := CTrunc
				if !Known(ft) {
					c |= CUnknown
				}
				return p.fail(o, c, nesting)
			}
			o += 2
			if !Known(ft) {
				c := CUnknown
				if len(b)-o < 1 {
					c |= CTrunc
				}
				return p.fail(o, c, nesting)
			}
			n, ok := p.value(o, ft, nesting)
			if !ok {
				return 0, false
			}
			o += n
		}
	case MAP:
		nesting++
		if nesting > p.r.MaxNesting {
			p.r.MaxNesting = nesting
		}
		if nesting == 65 && p.r.DeepOff < 0 && rem > 0 {
			// (with no byte left the 65th container is demanded by the grammar but not met: truncation and
			// depth are then both causes, in either order)
			p.r.DeepOff = off
		}
		if nesting > oracleDepthCap {
			p.r.TooDeep = true
			return p.fail(off, CDepth, nesting)
		}
		if rem < 6 {
			return p.fail(off, CTrunc, nesting)
		}
		kt, vt := b[off], b[off+1]
		sz := int32(binary.BigEndian.Uint32(b[off+2:]))
		unk := !Known(kt) || !Known(vt)
		p.ask(uint64(uint32(sz)) * 16)
		if sz < 0 {
			c := CNeg
			if unk {
				c |= CUnknown
			}
			return p.fail(off, c, nesting)
		}
		p.declared(int64(sz))
		if sz == 0 {
			if unk {
				p.r.DontCare = true
			}
			return 6, true
		}
		if unk {
			c := CUnknown
			if rem-6 < 1 {
				c |= CTrunc
			}
			if Known(kt) {
				// only the value type is unknown: a parser meets the first key before it ever has to
				// interpret the value type, so the key is parsed for real (nesting, sizes and its own
				// failure causes count); the unknown tag stays an acceptable cause either way
				n, ok := p.value(off+6, kt, nesting)
				if !ok {
					p.r.Causes |= CUnknown
					return 0, false
				}
				c = CUnknown
				if len(b)-(off+6+n) < 1 {
					c |= CTrunc
				}
				return p.fail(off+6+n, c, nesting)
			}
			return p.fail(off+6, c, nesting)
		}
		ks, vs := FixedSize(kt), FixedSize(vt)
		if ks > 0 && vs > 0 {
			if int64(rem-6)/int64(ks+vs) < int64(sz) {
				return p.fail(off+6, CTrunc, nesting)
			}
			return 6 + int(sz)*(ks+vs), true
		}
		o := off + 6
		for i := int32(0); i < sz; i++ {
			n, ok := p.value(o, kt, nesting)
			if !ok {
				return 0, false
			}
			o += n
			n, ok = p.value(o, vt, nesting)
			if !ok {
				return 0, false
			}
			o += n
		}
		return o - off, true
	case SET, LIST:
		nesting++
		if nesting > p.r.MaxNesting {
			p.r.MaxNesting = nesting
		}
		if nesting == 65 && p.r.DeepOff < 0 && rem > 0 {
			// (with no byte left the 65th container is demanded by the grammar but not met: truncation and
			// depth are then both causes, in either order)
			p.r.DeepOff = off
		}
		if nesting > oracleDepthCap {
			p.r.TooDeep = true
			return p.fail(off, CDepth, nesting)
		}
		if rem < 5 {
			return p.fail(off, CTrunc, nesting)
		}
		et := b[off]
		sz := int32(binary.BigEndian.Uint32(b[off+1:]))
		p.ask(uint64(uint32(sz)) * 8)
		if sz < 0 {
			c := CNeg
			if !Known(et) {
				c |= CUnknown
			}
			return p.fail(off, c, nesting)
		}
		p.declared(int64(sz))
		if sz == 0 {
			if !Known(et) {
				p.r.DontCare = true
			}
			return 5, true
		}
		if !Known(et) {
			c := CUnknown
			if rem-5 < 1 {
				c |= CTrunc
			}
			return p.fail(off+5, c, nesting)
		}
		if es := FixedSize(et); es > 0 {
			if int64(rem-5)/int64(es) < int64(sz) {
				return p.fail(off+5, CTrunc, nesting)
			}
			return 5 + int(sz)*es, true
		}
		o := off + 5
		for i := int32(0); i < sz; i++ {
			n, ok := p.value(o, et, nesting)
			if !ok {
				return 0, false
			}
			o += n
		}
		return o - off, true
	}
	c := CUnknown
	if rem < 1 {
		c |= CTrunc
	}
	return p.fail(off, c, nesting)
}

// Parse decides whether b starts with a complete well-formed value of type t.
func Parse(b []byte, t byte) ParseResult {
	var r ParseResult
	r.DeepOff = -1
	p := &parser{b: b, r: &r}
	n, ok := p.value(0, t, 0)
	r.OK, r.N = ok, n
	if ok {
		r.Causes = 0
	}
	return r
}

// MaxDeclaredWindow is a conservative bound on what an allocating decoder may be asked to
// allocate: the maximum over every 4-byte big-endian window of the input.
func MaxDeclaredWindow(b []byte) uint32 {
	var m uint32
	for i := 0; i+4 <= len(b); i++ {
		if v := binary.BigEndian.Uint32(b[i:]); v > m {
			m = v
		}
	}
	return m
}
