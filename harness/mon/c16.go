package mon

import (
	"bytes"
	"fmt"
	"io"
	"runtime"
	"sync"

	"github.com/cloudwego/gopkg/bufiox"
	"github.com/cloudwego/gopkg/protocol/thrift"
	"github.com/cloudwego/gopkg/protocol/thrift/base"
	uf "github.com/cloudwego/gopkg/protocol/thrift/unknownfields"

	"verifharness/doubles"
	"verifharness/drv"
	"verifharness/gen"
	"verifharness/ref"
	"verifharness/san"
)

func init() { drv.Register("C16", monC16) }

var c16Lens = func() []int {
	ls := []int{0, 1, 2, 3, 17, 64, 100, 126, 127, 128, 129}
	for p := 256; p <= 131072; p *= 2 {
		ls = append(ls, p-1, p, p+1)
	}
	return append(ls, 140000, 200000)
}()

type retained struct {
	b    []byte // returned byte slice (nil for strings)
	s    string // returned string
	snap []byte
	what string
}

func (r *retained) intact() bool {
	if r.b != nil {
		return bytes.Equal(r.b[:len(r.snap)], r.snap)
	}
	return r.s == string(r.snap)
}

func checkRetained(cs *drv.Case, rs []retained, when string) bool {
	for i := range rs {
		if !rs[i].intact() {
			cs.Fail("decoded-value-changed", M{"what": rs[i].what, "when": when}, M{"message": fmt.Sprintf("%s #%d (len %d) changed %s", rs[i].what, i, len(rs[i].snap), when)})
			return false
		}
	}
	return true
}

// c16Buffer decodes a run of strings/binaries from one buffer with thrift.Binary and attacks them.
func c16Buffer(cs *drv.Case, lens []int, spanCache bool) {
	r := cs.R
	var wire []byte
	var vals [][]byte
	var offs []int
	for _, l := range lens {
		v := gen.Bytes(r, l)
		vals = append(vals, v)
		offs = append(offs, len(wire))
		wire = ref.EncBinary(wire, v)
	}
	in := append([]byte(nil), wire...)
	inSnap := append([]byte(nil), wire...)
	var rs []retained
	for i, l := range lens {
		if i%2 == 0 {
			b, n, err := thrift.Binary.ReadBinary(in[offs[i]:])
			if err != nil || n != 4+l || !bytes.Equal(b, vals[i]) {
				cs.Fail("decode-wrong", M{"api": "Binary.ReadBinary", "span_cache": spanCache}, M{"len": l, "err": errString(err)})
				return
			}
			if san.OverlapsLen(b[:cap(b)], in) || san.Overlaps(b, in) {
				cs.Fail("decoded-value-aliases-input", M{"api": "Binary.ReadBinary", "span_cache": spanCache}, M{"len": l, "cap": cap(b), "message": "the returned slice (incl. its spare capacity) overlaps the input buffer"})
				return
			}
			rs = append(rs, retained{b: b, snap: append([]byte(nil), b...), what: "Binary.ReadBinary result"})
		} else {
			s, n, err := thrift.Binary.ReadString(in[offs[i]:])
			if err != nil || n != 4+l || s != string(vals[i]) {
				cs.Fail("decode-wrong", M{"api": "Binary.ReadString", "span_cache": spanCache}, M{"len": l, "err": errString(err)})
				return
			}
			rs = append(rs, retained{s: s, snap: []byte(s), what: "Binary.ReadString result"})
		}
	}
	// attack 1: append to / overwrite each returned slice: input and siblings must not change
	for i := range rs {
		if rs[i].b == nil {
			continue
		}
		b := rs[i].b
		b = append(b, 0xA1, 0xA2, 0xA3, 0xA4) // writes into spare capacity if there is any
		for k := range rs[i].b {
			rs[i].b[k] ^= 0xFF
		}
		if !bytes.Equal(in, inSnap) {
			cs.Fail("decoded-value-aliases-input", M{"api": "Binary.ReadBinary", "span_cache": spanCache}, M{"len": len(rs[i].snap), "message": fmt.Sprintf("modifying/appending to a returned slice changed the input buffer at %d", firstDiff(in, inSnap))})
			return
		}
		// while value i is modified in place, every other returned value must be unaffected
		for k := range rs {
			if k != i && !rs[k].intact() {
				cs.Fail("decoded-values-share-memory", M{"api": "Binary.ReadBinary", "span_cache": spanCache}, M{"len_modified": len(rs[i].snap), "len_affected": len(rs[k].snap), "message": fmt.Sprintf("writing into returned value #%d changed returned value #%d", i, k)})
				for j := range rs[i].b {
					rs[i].b[j] ^= 0xFF
				}
				return
			}
		}
		// and a fresh decode of the same bytes must still give the original content
		if len(rs[i].snap) > 0 {
			if nb, _, err := thrift.Binary.ReadBinary(in[offs[i]:]); err != nil || !bytes.Equal(nb, vals[i]) {
				cs.Fail("decoded-values-share-memory", M{"api": "Binary.ReadBinary", "span_cache": spanCache, "what": "later decode"}, M{"len": len(vals[i]), "message": "after a returned value was modified in place, decoding the same input again gives different content"})
				for j := range rs[i].b {
					rs[i].b[j] ^= 0xFF
				}
				return
			}
		}
		for k := range rs[i].b {
			rs[i].b[k] ^= 0xFF
		}
		_ = b
		if !checkRetained(cs, rs, "after appending to / overwriting a sibling") {
			return
		}
	}
	// attack 2: overwrite and reuse the input buffer
	for k := range in {
		in[k] = 0xFF
	}
	if !checkRetained(cs, rs, "after the input buffer was overwritten") {
		return
	}
	cs.C.Obs("buffer-decoded values attacked", int64(len(rs)))
}

// c16Stream decodes from a bufiox-backed BufferReader, releases/recycles, lets the pool
// co-tenant scribble, decodes a second message with a recycled reader.
func c16Stream(cs *drv.Case, lens []int) {
	r := cs.R
	mk := func(seedByte byte) ([]byte, [][]byte) {
		var wire []byte
		var vals [][]byte
		wire = ref.EncMessageBegin(wire, "method-"+string(rune('A'+seedByte%26)), 1, int32(seedByte))
		for _, l := range lens {
			v := gen.Bytes(r, l)
			for i := range v {
				v[i] ^= seedByte
			}
			vals = append(vals, v)
			wire = ref.EncBinary(wire, v)
		}
		return wire, vals
	}
	var rs []retained
	for round := 0; round < 2; round++ {
		wire, vals := mk(byte(17 + round*90))
		src := &doubles.Source{Data: wire, Len: len(wire), ErrAt: len(wire), Err: io.EOF, Sched: r.Intn(doubles.NSched), R: r, Budget: 10*len(wire) + 100000}
		dr := bufiox.NewDefaultReader(src)
		br := thrift.NewBufferReader(dr)
		name, _, _, err := br.ReadMessageBegin()
		if err != nil {
			cs.Fail("decode-wrong", M{"api": "BufferReader.ReadMessageBegin"}, M{"err": errString(err)})
			return
		}
		rs = append(rs, retained{s: name, snap: []byte(name), what: "message name"})
		for i := range lens {
			if i%2 == 0 {
				b, err := br.ReadBinary()
				if err != nil || !bytes.Equal(b, vals[i]) {
					cs.Fail("decode-wrong", M{"api": "BufferReader.ReadBinary"}, M{"len": lens[i], "err": errString(err)})
					return
				}
				rs = append(rs, retained{b: b, snap: append([]byte(nil), b...), what: "BufferReader.ReadBinary result"})
			} else {
				s, err := br.ReadString()
				if err != nil || s != string(vals[i]) {
					cs.Fail("decode-wrong", M{"api": "BufferReader.ReadString"}, M{"len": lens[i], "err": errString(err)})
					return
				}
				rs = append(rs, retained{s: s, snap: []byte(s), what: "BufferReader.ReadString result"})
			}
		}
		dr.Release(nil)
		br.Recycle()
		if !checkRetained(cs, rs, "after the reader was released and recycled") {
			return
		}
		// co-tenant: take and scribble pool buffers of the classes the reader used
		ct := &coTenant{r: r}
		ct.run(cs, nil, nil, nil, 70000, "c16")
		ct.done()
		if !checkRetained(cs, rs, "after the pool buffers of the reader were reused") {
			return
		}
		// appending to one stream-decoded slice must not affect the others
		for i := range rs {
			if rs[i].b != nil && len(rs[i].b) > 0 {
				x := append(rs[i].b, 0x55, 0x66)
				_ = x
			}
		}
		// overwriting one in place must not either - nor may it reach memory the runtime shares between all
		// one-byte strings (a returned 1-byte slice that points into the runtime's static byte table)
		for i := range rs {
			if len(rs[i].b) == 0 {
				continue
			}
			for k := range rs[i].b {
				rs[i].b[k] ^= 0xFF
			}
			bad := -1
			for k := range rs {
				if k != i && !rs[k].intact() {
					bad = k
					break
				}
			}
			static := staticBytesIntact()
			for k := range rs[i].b {
				rs[i].b[k] ^= 0xFF
			}
			if bad >= 0 || !static {
				cs.Fail("decoded-values-share-memory", M{"api": "BufferReader.ReadBinary", "runtime_byte_table": !static}, M{"len_modified": len(rs[i].snap),
					"message": fmt.Sprintf("overwriting returned value #%d in place changed returned value #%d / the runtime's shared one-byte strings (intact: %v)", i, bad, static)})
				return
			}
		}
		if !checkRetained(cs, rs, "after appending to siblings") {
			return
		}
	}
	cs.C.Obs("stream-decoded values attacked", int64(len(rs)))
}

func monC16(c *drv.Ctx) {
	defer thrift.SetSpanCache(false)
	concurrent := func(cs *drv.Case) {
		span := cs.Idx%3 != 2
		procs := runtime.GOMAXPROCS(0)
		if (cs.Idx/3)%2 == 1 {
			runtime.GOMAXPROCS(1) // the allocator is switched on while the process has a single P; more are added later
		}
		thrift.SetSpanCache(span)
		if procs < 4 {
			runtime.GOMAXPROCS(4)
		} else {
			runtime.GOMAXPROCS(procs)
		}
		defer func() {
			thrift.SetSpanCache(false)
			runtime.GOMAXPROCS(procs)
		}()
		c16Concurrent(cs, span, (cs.Idx/6)%2 == 1)
	}
	if c.Flavour == "race" && !c.Thorough() {
		// quick tier: the race build is there for the one stage that has goroutines
		c.Stage("concurrent-decoders", 12, false, concurrent)
		return
	}
	for _, span := range []bool{false, true} {
		span := span
		name := "span-cache-off"
		if span {
			name = "span-cache-on"
		}
		// (1) every length class, buffer decoder
		c.Stage("buffer/"+name, int64(len(c16Lens)), true, func(cs *drv.Case) {
			thrift.SetSpanCache(span)
			l := c16Lens[cs.Idx]
			lens := []int{l, l, 0, 5, l, 0, 1, l, 1, 1, 2, 1}
			cs.Desc = M{"span_cache": span, "lens": fmt.Sprint(lens)}
			c16Buffer(cs, lens, span)
			cs.Count(l >= 1, "buf", span, l)
		})
		// (2) long runs that wrap the 1 MiB spans several times
		c.Stage("runs/"+name, c.Pick(300, 3000), false, func(cs *drv.Case) {
			thrift.SetSpanCache(span)
			r := cs.R
			n := 200 + r.Intn(600)
			lens := make([]int, n)
			total := 0
			for i := range lens {
				switch r.Intn(8) {
				case 0:
					lens[i] = 0
				case 1:
					lens[i] = c16Lens[r.Intn(len(c16Lens)-6)]
				case 2:
					lens[i] = 128 + r.Intn(4000)
				default:
					lens[i] = r.Intn(200)
				}
				total += lens[i]
			}
			cs.Desc = M{"span_cache": span, "values": n, "total_bytes": total}
			c16Buffer(cs, lens, span)
			cs.Count(true, "run", span, lens)
			cs.C.Obs("bytes decoded in runs", int64(total))
			if cs.WantSample() && cs.Idx%17 == 1 {
				cs.Sample(cs.Desc)
			}
		})
		// (3) results identical with the allocator on and off: decoded structs
		c.Stage("structs/"+name, c.Pick(12000, 200000), false, func(cs *drv.Case) {
			thrift.SetSpanCache(span)
			r := cs.R
			orig := &base.Base{LogID: genFieldStr(r), Caller: genFieldStr(r), Addr: genFieldStr(r), Extra: genExtra(r)}
			wire := thrift.FastMarshal(orig)
			in := append([]byte(nil), wire...)
			got := base.NewBase()
			if _, err := got.FastRead(in); err != nil {
				cs.Fail("decode-wrong", M{"api": "Base.FastRead", "span_cache": span}, M{"err": errString(err)})
				return
			}
			ex := thrift.NewApplicationException(0, "")
			exWire := thrift.FastMarshal(thrift.NewApplicationException(7, orig.LogID+"!"))
			exIn := append([]byte(nil), exWire...)
			ex.FastRead(exIn)
			v := gen.Tree(r, ref.STRUCT, gen.TreeOpts{MaxDepth: 3, MaxElems: 4, Canonical: true, BigStrings: true}, 0)
			if r.Intn(3) == 0 {
				v.Fields = append(v.Fields, ref.Field{ID: 77, V: ref.Value{T: ref.STRING, S: gen.Bytes(r, []int{4095, 4096, 5000, 9000, 70000}[r.Intn(5)])}})
			}
			ue := v.Encode(nil)
			ue = ue[:len(ue)-1]
			var tree, tree2 []uf.UnknownField
			var ufIn []byte
			holder := &struct {
				A              int
				_unknownFields []byte
			}{A: 1}
			if len(ue) > 0 {
				ufIn = append([]byte(nil), ue...)
				tree, _ = uf.ConvertUnknownFields(ufIn)
				// ... and the tree fetched from a struct that carries the bytes (the struct is decoded into again later)
				holder._unknownFields = append([]byte(nil), ue...)
				tree2, _ = uf.GetUnknownFields(holder)
			}
			before := fmt.Sprintf("%v|%v|%d|%v|%v", got, ex.Msg(), ex.TypeID(), tree, tree2)
			for k := range in {
				in[k] = 0xFF
			}
			for k := range exIn {
				exIn[k] = 0xFF
			}
			for k := range ufIn {
				ufIn[k] = 0xFF
			}
			for k := range holder._unknownFields {
				holder._unknownFields[k] = 0xFF
			}
			after := fmt.Sprintf("%v|%v|%d|%v|%v", got, ex.Msg(), ex.TypeID(), tree, tree2)
			if before != after {
				cs.Fail("decoded-value-changed", M{"what": "decoded struct / exception / unknown-field tree", "span_cache": span}, M{"message": "a decoded struct changed after its input buffer was overwritten"})
				return
			}
			if got.LogID != orig.LogID || got.Caller != orig.Caller || got.Addr != orig.Addr || !strMapEq(got.Extra, orig.Extra) || ex.Msg() != orig.LogID+"!" {
				cs.Fail("decode-wrong", M{"api": "structs", "span_cache": span}, M{"message": "decoded struct differs from the original"})
				return
			}
			cs.Count(true, "struct", span, fmt.Sprint(orig))
			cs.C.Obs("structs attacked", 1)
		})
	}
	// (3a) far more values than any allocator block holds, all of one size class and all kept: megabytes of values
	// shorter than 128 bytes (the bulk of what a decoder sees), of 128..255 and of 1..2 KiB. A value handed out
	// when a block was fresh must still be intact after that block has been used up and replaced several times.
	longClasses := [][2]int{{0, 127}, {1, 16}, {128, 255}, {1024, 2047}}
	c.Stage("kept-across-many-blocks", int64(len(longClasses))*2*2, true, func(cs *drv.Case) {
		span := cs.Idx%2 == 1
		cl := longClasses[(cs.Idx/2)%int64(len(longClasses))]
		if cs.Idx >= int64(len(longClasses))*2 {
			// the same through one stream reader per 64 KiB of values
			thrift.SetSpanCache(span)
			defer thrift.SetSpanCache(false)
			c16LongStream(cs, cl[0], cl[1], 2<<20, span)
			return
		}
		thrift.SetSpanCache(span)
		defer thrift.SetSpanCache(false)
		total := c.Pick(5<<20, 24<<20)
		if c.Slow() {
			total = 3 << 20
		}
		c16Long(cs, cl[0], cl[1], int(total), span)
	})

	// (3a') several goroutines decode at the same time with the allocator on (it is shared by all of them): each
	// keeps its values, overwrites its own byte slices in place, and finds them as it left them after the join
	c.Stage("concurrent-decoders", c.Pick(12, 48), false, concurrent)

	// (3a'') a stream reader that is in the middle of a value (its peer stalls, then delivers the rest or hangs up)
	// while other readers decode complete values: what those got stays theirs, whether the stalled read then
	// fails or succeeds, and whatever is decoded later
	c.Stage("decodes-during-a-stalled-read", c.Pick(3000, 40000), false, func(cs *drv.Case) {
		span := cs.Idx%2 == 0
		thrift.SetSpanCache(span)
		defer thrift.SetSpanCache(false)
		c16Stalled(cs, span)
	})

	// (3b) the allocator switch is flipped between two decodes (never concurrently): values obtained
	// under either setting must stay intact and independent afterwards
	c.Stage("toggle-between-decodes", c.Pick(300, 3000), false, func(cs *drv.Case) {
		r := cs.R
		// the same input decoded under both settings gives identical results, down to nil versus empty
		for _, l := range []int{0, 1, 127, 128, 200000} {
			in := ref.EncBinary(nil, gen.Bytes(r, l))
			thrift.SetSpanCache(false)
			b0, n0, e0 := thrift.Binary.ReadBinary(in)
			thrift.SetSpanCache(true)
			b1, n1, e1 := thrift.Binary.ReadBinary(in)
			thrift.SetSpanCache(false)
			if n0 != n1 || (e0 == nil) != (e1 == nil) || !bytes.Equal(b0, b1) || (b0 == nil) != (b1 == nil) || (cap(b0) == 0) != (cap(b1) == 0) && l > 0 {
				cs.Fail("span-cache-changes-result", M{"api": "Binary.ReadBinary"}, M{"len": l, "nil_off": b0 == nil, "nil_on": b1 == nil, "n_off": n0, "n_on": n1,
					"message": "the value decoded with the span cache enabled differs from the one decoded with it disabled"})
				return
			}
		}
		var rs []retained
		var ins [][]byte
		on := r.Intn(2) == 0
		for round := 0; round < 6; round++ {
			thrift.SetSpanCache(on)
			on = !on
			n := 5 + r.Intn(40)
			var wire []byte
			var vals [][]byte
			for k := 0; k < n; k++ {
				v := gen.Bytes(r, []int{0, 1, 60, 127, 128, 129, 1000, 5000}[r.Intn(8)])
				vals = append(vals, v)
				wire = ref.EncBinary(wire, v)
			}
			in := append([]byte(nil), wire...)
			ins = append(ins, in)
			off := 0
			for k := range vals {
				if k%2 == 0 {
					b, l, err := thrift.Binary.ReadBinary(in[off:])
					if err != nil || !bytes.Equal(b, vals[k]) {
						cs.Fail("decode-wrong", M{"api": "Binary.ReadBinary", "stage": "toggle"}, M{"err": errString(err)})
						return
					}
					rs = append(rs, retained{b: b, snap: append([]byte(nil), b...), what: "Binary.ReadBinary result (toggle)"})
					off += l
				} else {
					str, l, err := thrift.Binary.ReadString(in[off:])
					if err != nil || str != string(vals[k]) {
						cs.Fail("decode-wrong", M{"api": "Binary.ReadString", "stage": "toggle"}, M{"err": errString(err)})
						return
					}
					rs = append(rs, retained{s: str, snap: []byte(str), what: "Binary.ReadString result (toggle)"})
					off += l
				}
			}
			if !checkRetained(cs, rs, "after the allocator switch was flipped and more values were decoded") {
				return
			}
		}
		for i := range rs {
			if rs[i].b != nil {
				_ = append(rs[i].b, 1, 2, 3)
			}
		}
		for _, in := range ins {
			for k := range in {
				in[k] = 0xFF
			}
		}
		checkRetained(cs, rs, "after appends and after all inputs were overwritten")
		cs.Count(true, "toggle", cs.Idx)
		cs.C.Obs("toggle cases", 1)
	})

	// (4) stream reader: release, recycle, pool reuse, second message through a recycled reader
	for _, span := range []bool{false, true} {
		span := span
		name := "stream/span-cache-off"
		if span {
			name = "stream/span-cache-on"
		}
		c.Stage(name, c.Pick(6000, 100000), false, func(cs *drv.Case) {
			thrift.SetSpanCache(span)
			r := cs.R
			n := 2 + r.Intn(10)
			lens := make([]int, n)
			for i := range lens {
				switch r.Intn(6) {
				case 0:
					lens[i] = 0
				case 1:
					lens[i] = c16Lens[r.Intn(len(c16Lens)-8)]
				default:
					lens[i] = 1 + r.Intn(70)
				}
			}
			cs.Desc = M{"span_cache": span, "lens": fmt.Sprint(lens)}
			c16Stream(cs, lens)
			cs.Count(true, "stream", span, lens)
		})
	}
	thrift.SetSpanCache(false)
}

// staticBytesIntact: converting a fresh one-byte slice to a string gives that byte, for every byte value (the
// runtime serves such conversions from one shared table; a decoder that hands out a slice into it lets its
// caller overwrite the table).
func staticBytesIntact() bool {
	var x [1]byte
	for v := 0; v < 256; v++ {
		x[0] = byte(v)
		if s := string(x[:]); s[0] != byte(v) {
			return false
		}
	}
	return true
}

// c16Val is the content of value i of stream g: position-dependent, so that no snapshot needs to be kept.
func c16Val(dst []byte, g, i int) {
	for j := range dst {
		dst[j] = byte(g*101 + i*7 + (i>>8)*13 + j*31 + (j >> 8) + 1)
	}
}

func c16ValIs(b []byte, g, i int, flipped bool) bool {
	x := byte(0)
	if flipped {
		x = 0xFF
	}
	for j := range b {
		if b[j] != byte(g*101+i*7+(i>>8)*13+j*31+(j>>8)+1)^x {
			return false
		}
	}
	return true
}

// c16Long decodes about total bytes of values with lengths lo..hi from a reused input buffer and keeps them all.
func c16Long(cs *drv.Case, lo, hi, total int, span bool) {
	r := cs.R
	type kept struct {
		b []byte
		s string
		i int
	}
	var ks []kept
	in := make([]byte, 4+hi)
	verify := func(when string) bool {
		for _, k := range ks {
			ok := false
			if k.b != nil {
				ok = c16ValIs(k.b, 0, k.i, false)
			} else {
				ok = c16ValIs([]byte(k.s), 0, k.i, false)
			}
			if !ok {
				cs.Fail("decoded-value-changed", M{"what": "value kept across allocator blocks", "when": when, "span_cache": span}, M{"value_index": k.i, "values_decoded": len(ks), "len": len(k.b) + len(k.s),
					"message": fmt.Sprintf("value #%d of %d (lengths %d..%d) is no longer what was decoded %s", k.i, len(ks), lo, hi, when)})
				return false
			}
		}
		return true
	}
	done, next := 0, total/6
	for i := 0; done < total; i++ {
		l := lo + r.Intn(hi-lo+1)
		w := ref.U32(in[:0], uint32(l))
		w = w[:4+l]
		c16Val(w[4:], 0, i)
		if i%2 == 0 {
			b, n, err := thrift.Binary.ReadBinary(w)
			if err != nil || n != 4+l || !c16ValIs(b, 0, i, false) || len(b) != l {
				cs.Fail("decode-wrong", M{"api": "Binary.ReadBinary", "span_cache": span}, M{"len": l, "err": errString(err), "value_index": i})
				return
			}
			if l > 0 {
				ks = append(ks, kept{b: b, i: i})
			}
		} else {
			s, n, err := thrift.Binary.ReadString(w)
			if err != nil || n != 4+l || len(s) != l || !c16ValIs([]byte(s), 0, i, false) {
				cs.Fail("decode-wrong", M{"api": "Binary.ReadString", "span_cache": span}, M{"len": l, "err": errString(err), "value_index": i})
				return
			}
			if l > 0 {
				ks = append(ks, kept{s: s, i: i})
			}
		}
		for j := range w {
			w[j] = 0xDD // the input buffer is reused right away
		}
		done += l + 1
		if done >= next {
			if !verify("after further decodes") {
				return
			}
			next += total / 6
		}
	}
	if !verify("at the end of the run") {
		return
	}
	cs.Desc = M{"span_cache": span, "lengths": fmt.Sprintf("%d..%d", lo, hi), "values_kept": len(ks), "bytes": done}
	cs.Count(true, "long", span, lo, hi)
	cs.C.Obs("values kept across more than 4 MiB of further decodes", int64(len(ks)))
	cs.C.Obs("bytes decoded in runs", int64(done))
}

// c16Concurrent: G goroutines decode values of the same few size classes at the same time.
func c16Concurrent(cs *drv.Case, span bool, stream bool) {
	G := 3 + cs.R.Intn(6)
	iters := 6000
	if cs.C.Slow() {
		iters = 1500
	}
	classes := [][2]int{{128, 255}, {1, 127}, {256, 511}, {4096, 8191}}
	cl := classes[cs.R.Intn(len(classes))]
	type kept struct {
		b []byte
		s string
		i int
	}
	type gres struct {
		ks   []kept
		fail string
	}
	res := make([]gres, G)
	seeds := make([]int64, G)
	for g := range seeds {
		seeds[g] = cs.R.Int63()
	}
	var wg sync.WaitGroup
	start := make(chan struct{})
	for g := 0; g < G; g++ {
		g := g
		wg.Add(1)
		go func() {
			defer wg.Done()
			defer func() {
				if p := recover(); p != nil {
					res[g].fail = fmt.Sprintf("panic: %v", p)
				}
			}()
			r := drv.NewRand(seeds[g])
			in := make([]byte, 4+cl[1])
			<-start
			for i := 0; i < iters; i++ {
				l := cl[0] + r.Intn(cl[1]-cl[0]+1)
				w := ref.U32(in[:0], uint32(l))[:4+l]
				c16Val(w[4:], g+1, i)
				if stream {
					// through the stream reader (a reader per value, as for short-lived connections)
					br := thrift.NewBufferReader(bufiox.NewBytesReader(w))
					if i%3 != 0 {
						b, err := br.ReadBinary()
						br.Recycle()
						if err != nil || len(b) != l || !c16ValIs(b, g+1, i, false) {
							res[g].fail = fmt.Sprintf("BufferReader.ReadBinary #%d returned other bytes than its input (err=%v)", i, err)
							return
						}
						for j := range b {
							b[j] ^= 0xFF
						}
						res[g].ks = append(res[g].ks, kept{b: b, i: i})
					} else {
						s, err := br.ReadString()
						br.Recycle()
						if err != nil || len(s) != l || !c16ValIs([]byte(s), g+1, i, false) {
							res[g].fail = fmt.Sprintf("BufferReader.ReadString #%d returned other bytes than its input (err=%v)", i, err)
							return
						}
						res[g].ks = append(res[g].ks, kept{s: s, i: i})
					}
					continue
				}
				if i%3 != 0 {
					b, _, err := thrift.Binary.ReadBinary(w)
					if err != nil || len(b) != l || !c16ValIs(b, g+1, i, false) {
						res[g].fail = fmt.Sprintf("ReadBinary #%d returned other bytes than its input (err=%v)", i, err)
						return
					}
					for j := range b {
						b[j] ^= 0xFF // the value is this goroutine's own
					}
					res[g].ks = append(res[g].ks, kept{b: b, i: i})
				} else {
					s, _, err := thrift.Binary.ReadString(w)
					if err != nil || len(s) != l || !c16ValIs([]byte(s), g+1, i, false) {
						res[g].fail = fmt.Sprintf("ReadString #%d returned other bytes than its input (err=%v)", i, err)
						return
					}
					res[g].ks = append(res[g].ks, kept{s: s, i: i})
				}
			}
		}()
	}
	close(start)
	wg.Wait()
	n := 0
	for g := range res {
		if res[g].fail != "" {
			cs.Fail("decoded-value-changed", M{"what": "concurrent decoders", "span_cache": span}, M{"goroutine": g, "goroutines": G, "message": res[g].fail})
			return
		}
		for _, k := range res[g].ks {
			ok := false
			if k.b != nil {
				ok = c16ValIs(k.b, g+1, k.i, true)
			} else {
				ok = c16ValIs([]byte(k.s), g+1, k.i, false)
			}
			if !ok {
				cs.Fail("decoded-values-share-memory", M{"what": "concurrent decoders", "span_cache": span}, M{"goroutine": g, "goroutines": G, "value_index": k.i, "lengths": fmt.Sprint(cl),
					"message": fmt.Sprintf("value #%d of goroutine %d is not what that goroutine left in it: another goroutine's decode wrote into it", k.i, g)})
				return
			}
			n++
		}
	}
	cs.Desc = M{"span_cache": span, "goroutines": G, "values_each": iters, "lengths": fmt.Sprint(cl), "through_stream_readers": stream}
	cs.Count(true, "conc", span, G, cl, cs.Idx, stream)
	cs.C.Obs("values decoded concurrently and re-checked after the join", int64(n))
}

// c16Stalled: reader A reads one value from a source that calls back between its chunks; inside those calls
// (and afterwards) other readers decode values that are kept.
func c16Stalled(cs *drv.Case, span bool) {
	r := cs.R
	L := []int{96, 1, 127, 128, 500, 5000, 16384, 20000}[r.Intn(8)]
	enc := ref.U32(nil, uint32(L))
	enc = append(enc, make([]byte, L)...)
	c16Val(enc[4:], 7, 0)
	fail := r.Intn(2) == 0
	cut := len(enc)
	if fail {
		cut = 4 + r.Intn(L)
		if r.Intn(8) == 0 {
			cut = r.Intn(4)
		}
	}
	type kept struct {
		b []byte
		s string
		i int
	}
	var ks []kept
	bad := ""
	decodeOther := func() {
		i := len(ks)
		l := L
		if r.Intn(2) == 0 {
			l = 1 + r.Intn(300)
		}
		one := ref.U32(nil, uint32(l))
		one = append(one, make([]byte, l)...)
		c16Val(one[4:], 8, i)
		br := thrift.NewBufferReader(bufiox.NewBytesReader(append(append([]byte(nil), one...), one...)))
		b, err1 := br.ReadBinary()
		s, err2 := br.ReadString()
		br.Recycle()
		if err1 != nil || err2 != nil || !c16ValIs(b, 8, i, false) || !c16ValIs([]byte(s), 8, i, false) || len(b) != l || len(s) != l {
			bad = fmt.Sprintf("value #%d decoded by another reader came back wrong (err=%v/%v)", i, err1, err2)
			return
		}
		ks = append(ks, kept{b: b, s: s, i: i})
	}
	during := 0
	src := &doubles.Source{Data: enc, Len: len(enc), ErrAt: cut, Err: io.ErrUnexpectedEOF, Sched: []int{doubles.SchedSmall, doubles.SchedBuf, doubles.SchedRandom}[r.Intn(3)], R: r, Budget: 10*len(enc) + 100000}
	src.Churn = func() {
		if during < 12 && bad == "" {
			during++
			decodeOther()
		}
	}
	ra := thrift.NewBufferReader(bufiox.NewDefaultReader(src))
	var av []byte
	var aerr error
	asString := r.Intn(2) == 0
	if asString {
		var s string
		s, aerr = ra.ReadString()
		av = []byte(s)
	} else {
		av, aerr = ra.ReadBinary()
	}
	ra.Recycle()
	cs.Desc = M{"span_cache": span, "stalled_value_len": L, "stream_cut_at": cut, "stalled_read_fails": fail, "decodes_during_the_stall": during}
	if bad != "" {
		cs.Fail("decode-wrong", M{"api": "BufferReader", "span_cache": span, "during": "another reader's stalled read"}, M{"message": bad})
		return
	}
	if fail != (aerr != nil) {
		cs.Fail("decode-wrong", M{"api": "BufferReader", "span_cache": span}, M{"message": fmt.Sprintf("the stalled read returned err=%v for a stream cut at %d of %d", aerr, cut, len(enc))})
		return
	}
	if !fail && (len(av) != L || !c16ValIs(av, 7, 0, false)) {
		cs.Fail("decoded-value-changed", M{"what": "value of the stalled reader", "span_cache": span}, M{"message": "the value whose read was interrupted by other readers' decodes is not what the stream held"})
		return
	}
	for k := 0; k < 6; k++ {
		decodeOther()
	}
	if bad != "" {
		cs.Fail("decode-wrong", M{"api": "BufferReader", "span_cache": span, "during": "after the stalled read"}, M{"message": bad})
		return
	}
	for _, k := range ks {
		if !c16ValIs(k.b, 8, k.i, false) || !c16ValIs([]byte(k.s), 8, k.i, false) {
			cs.Fail("decoded-value-changed", M{"what": "value decoded while another reader was mid-value", "span_cache": span}, M{"value_index": k.i, "decoded_during_the_stall": k.i < during, "stalled_read_failed": fail,
				"message": fmt.Sprintf("value #%d (of %d, the first %d decoded while another reader was in the middle of a value) changed after that reader finished and later values were decoded", k.i, len(ks), during)})
			return
		}
	}
	if !fail && !c16ValIs(av, 7, 0, false) {
		cs.Fail("decoded-value-changed", M{"what": "value of the stalled reader", "span_cache": span}, M{"message": "changed after later decodes"})
		return
	}
	cs.Count(true, "stalled", span, L, cut, asString, during)
	cs.C.Obs("values decoded while another reader was mid-value", int64(during))
}

// c16LongStream: like c16Long, the values read by thrift.BufferReader from bytes-backed readers (one per 64 KiB).
func c16LongStream(cs *drv.Case, lo, hi, total int, span bool) {
	r := cs.R
	type kept struct {
		b []byte
		s string
		i int
	}
	var ks []kept
	verify := func(when string) bool {
		for _, k := range ks {
			ok := false
			if k.b != nil {
				ok = c16ValIs(k.b, 3, k.i, false)
			} else {
				ok = c16ValIs([]byte(k.s), 3, k.i, false)
			}
			if !ok {
				cs.Fail("decoded-value-changed", M{"what": "value kept across many decodes of one stream reader", "when": when, "span_cache": span}, M{"value_index": k.i, "values_decoded": len(ks), "len": len(k.b) + len(k.s),
					"message": fmt.Sprintf("value #%d of %d (lengths %d..%d) read by BufferReader is no longer what was decoded %s", k.i, len(ks), lo, hi, when)})
				return false
			}
		}
		return true
	}
	done, i := 0, 0
	for done < total {
		var stream []byte
		var lens []int
		for len(stream) < 64<<10 {
			l := lo + r.Intn(hi-lo+1)
			stream = ref.U32(stream, uint32(l))
			stream = append(stream, make([]byte, l)...)
			c16Val(stream[len(stream)-l:], 3, i+len(lens))
			lens = append(lens, l)
		}
		br := thrift.NewBufferReader(bufiox.NewBytesReader(stream))
		for _, l := range lens {
			if i%2 == 0 {
				b, err := br.ReadBinary()
				if err != nil || len(b) != l || !c16ValIs(b, 3, i, false) {
					cs.Fail("decode-wrong", M{"api": "BufferReader.ReadBinary", "span_cache": span}, M{"len": l, "err": errString(err), "value_index": i})
					br.Recycle()
					return
				}
				if l > 0 {
					ks = append(ks, kept{b: b, i: i})
				}
			} else {
				s, err := br.ReadString()
				if err != nil || len(s) != l || !c16ValIs([]byte(s), 3, i, false) {
					cs.Fail("decode-wrong", M{"api": "BufferReader.ReadString", "span_cache": span}, M{"len": l, "err": errString(err), "value_index": i})
					br.Recycle()
					return
				}
				if l > 0 {
					ks = append(ks, kept{s: s, i: i})
				}
			}
			i++
			done += l + 1
		}
		br.Recycle()
		for k := range stream {
			stream[k] = 0xDD
		}
		if !verify("after a batch of further decodes") {
			return
		}
	}
	cs.Desc = M{"span_cache": span, "lengths": fmt.Sprintf("%d..%d", lo, hi), "values_kept": len(ks), "bytes": done, "through": "BufferReader"}
	cs.Count(true, "longstream", span, lo, hi)
	cs.C.Obs("values kept across many decodes of stream readers", int64(len(ks)))
}
