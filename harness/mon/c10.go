package mon

import (
	"context"
	"fmt"
	"io"

	"github.com/cloudwego/gopkg/bufiox"
	"github.com/cloudwego/gopkg/protocol/ttheader"

	"verifharness/doubles"
	"verifharness/drv"
	"verifharness/gen"
	"verifharness/ref"
)

func init() { drv.Register("C10", monC10) }

// c10Check decodes one hostile frame with the library (bytes-backed at both guard-page
// placements, and stream-backed) and compares with the independent decoder.
func c10Check(cs *drv.Case, frame []byte, stream bool) {
	ctx := context.Background()
	od, reason := ref.TTHDecode(frame)
	declared := -1
	if len(frame) >= 14 {
		declared = int(uint16(frame[12])<<8|uint16(frame[13])) * 4
	}
	detail := func() M {
		return M{"frame_hex": hexOf(frame), "frame_len": len(frame), "oracle": M{"reject_reason": reason, "header_len": od.HeaderLen, "payload_len": od.PayloadLen, "n_int": len(od.IntInfo), "n_str": len(od.StrInfo)}}
	}
	judge := func(which string, dp ttheader.DecodeParam, err error, readLen int) {
		if readLen > len(frame) {
			d := detail()
			d["message"] = fmt.Sprintf("%s consumed %d bytes of a %d-byte input", which, readLen, len(frame))
			cs.Fail("decode-consumed-beyond-input", M{"via": which}, d)
		}
		if declared >= 0 && readLen > 14+declared {
			d := detail()
			d["message"] = fmt.Sprintf("%s consumed %d bytes, more than 14 + declared size %d", which, readLen, declared)
			cs.Fail("decode-consumed-beyond-header", M{"via": which}, d)
		}
		if err != nil {
			if reason == "" {
				cs.C.DontCare("oracle-accepts-library-rejects")
			}
			cs.C.Obs("frames rejected", 1)
			return
		}
		cs.C.Obs("frames accepted", 1)
		if reason != "" {
			d := detail()
			d["message"] = fmt.Sprintf("%s succeeded although the frame is invalid: %s", which, reason)
			cs.Fail("decode-accepted-invalid", M{"reason": reason, "via": which}, d)
			return
		}
		var diffs []string
		if uint16(dp.Flags) != od.Flags {
			diffs = append(diffs, "flags")
		}
		if dp.SeqID != od.SeqID {
			diffs = append(diffs, "seq")
		}
		if byte(dp.ProtocolID) != od.ProtocolID {
			diffs = append(diffs, "protocol")
		}
		if dp.HeaderLen != od.HeaderLen {
			diffs = append(diffs, fmt.Sprintf("HeaderLen %d != %d", dp.HeaderLen, od.HeaderLen))
		}
		if int64(dp.PayloadLen) != od.PayloadLen {
			diffs = append(diffs, fmt.Sprintf("PayloadLen %d != %d", dp.PayloadLen, od.PayloadLen))
		}
		if !mapsEqualInt(dp.IntInfo, od.IntInfo) {
			diffs = append(diffs, "int info")
		}
		if !mapsEqualStr(dp.StrInfo, od.StrInfo) {
			diffs = append(diffs, "str info")
		}
		if readLen != od.HeaderLen {
			diffs = append(diffs, fmt.Sprintf("consumed %d != header %d", readLen, od.HeaderLen))
		}
		if len(diffs) > 0 {
			d := detail()
			d["differences"] = diffs
			cs.Fail("decode-result-differs", M{"field": firstWord(diffs[0]), "via": which}, d)
		}
	}
	for where := 0; where < 2; where++ {
		in := place(frame, where)
		func() {
			defer func() {
				if r := recover(); r != nil {
					d := detail()
					d["panic"] = fmt.Sprint(r)
					kind := "decode-panic"
					if isFaultPanic(r) {
						kind = "decode-read-outside-input"
					}
					cs.Fail(kind, M{"via": "bytes"}, d)
				}
			}()
			rd := bufiox.NewBytesReader(in)
			dp, err := ttheader.Decode(ctx, rd)
			n := rd.ReadLen()
			rd.Release(nil)
			judge("Decode/BytesReader", dp, err, n)
			if err == nil && reason == "" && where == 0 {
				// the decoded maps are values: overwrite the input and look again
				for k := range in {
					in[k] = 0xFF
				}
				if !mapsEqualInt(dp.IntInfo, od.IntInfo) || !mapsEqualStr(dp.StrInfo, od.StrInfo) {
					d := detail()
					d["message"] = "the decoded maps changed after the input buffer was overwritten"
					cs.Fail("decoded-maps-alias-input", nil, d)
				}
				copy(in, frame)
			}
			dp2, err2 := ttheader.DecodeFromBytes(ctx, in)
			if (err == nil) != (err2 == nil) || (err == nil && (dp2.HeaderLen != dp.HeaderLen || dp2.PayloadLen != dp.PayloadLen)) {
				d := detail()
				d["message"] = fmt.Sprintf("DecodeFromBytes (%v) and Decode over a bytes reader (%v) disagree", err2, err)
				cs.Fail("decode-paths-disagree", nil, d)
			}
		}()
	}
	if stream && reason == "" && len(frame) < 4000 {
		// the same frame as the SECOND thing on a reader that has not been released since it
		// delivered a preface: lengths are about the frame, not about the reader's position
		func() {
			defer func() {
				if r := recover(); r != nil {
					d := detail()
					d["panic"] = fmt.Sprint(r)
					cs.Fail("decode-panic", M{"via": "second-frame"}, d)
				}
			}()
			pre := make([]byte, 1+cs.R.Intn(40))
			all := append(append(append([]byte(nil), pre...), frame...), 0xAA, 0xBB)
			for _, bytesBacked := range []bool{true, false} {
				var rd bufiox.Reader
				if bytesBacked {
					rd = bufiox.NewBytesReader(all)
				} else {
					rd = bufiox.NewDefaultReader(&doubles.Source{Data: all, Len: len(all), ErrAt: len(all), Err: io.EOF, Sched: cs.R.Intn(doubles.NSched), R: cs.R, Budget: 10*len(all) + 100000})
				}
				rd.Next(len(pre))
				before := rd.ReadLen()
				dp, err := ttheader.Decode(ctx, rd)
				n := rd.ReadLen() - before
				rd.Release(nil)
				if err != nil {
					d := detail()
					d["message"] = fmt.Sprintf("a frame that decodes on a fresh reader fails (%v) when %d bytes were consumed before it", err, len(pre))
					cs.Fail("decode-depends-on-reader-position", M{"what": "error"}, d)
					return
				}
				if dp.HeaderLen != od.HeaderLen || int64(dp.PayloadLen) != od.PayloadLen || n != od.HeaderLen {
					d := detail()
					d["message"] = fmt.Sprintf("after a %d-byte preface: HeaderLen %d PayloadLen %d consumed %d, want %d / %d / %d", len(pre), dp.HeaderLen, dp.PayloadLen, n, od.HeaderLen, od.PayloadLen, od.HeaderLen)
					cs.Fail("decode-depends-on-reader-position", M{"what": "lengths"}, d)
					return
				}
			}
			cs.C.Obs("second-frame decodes", 1)
		}()
	}
	if stream {
		func() {
			defer func() {
				if r := recover(); r != nil {
					d := detail()
					d["panic"] = fmt.Sprint(r)
					cs.Fail("decode-panic", M{"via": "stream"}, d)
				}
			}()
			src := &doubles.Source{Data: frame, Len: len(frame), ErrAt: len(frame), Err: io.EOF, Sched: cs.R.Intn(doubles.NSched), R: cs.R, ZeroMax: 1, WithData: cs.R.Intn(2) == 0, Budget: 10*len(frame) + 100000}
			dr := bufiox.NewDefaultReader(src)
			dp, err := ttheader.Decode(ctx, dr)
			n := dr.ReadLen()
			dr.Release(nil)
			judge("Decode/DefaultReader", dp, err, n)
		}()
	}
}

// validInfo builds a valid header-info block with sections in the given order.
func validInfo(cs *drv.Case, order string) []byte {
	r := cs.R
	info := []byte{[]byte{0, 3, 4, 0x10, 0x11}[r.Intn(5)], 0}
	str := func() string { return string(gen.Bytes(r, r.Intn(6))) }
	key := func() string {
		switch r.Intn(12) {
		case 0:
			return ref.TokenKey // the ACL-token key travelling as an ordinary string entry
		case 1:
			return "rpc_transit_gdpr-token"
		case 2, 3: // the keys the framework itself uses (literals, not the library's constants) and near misses
			k := []string{"isn", "rip", "tc", "ti", "pcs", "pce", "pss", "prs", "pre", "crrst", "K_ProcessAtTime", "pr", "pree", "is"}
			return k[r.Intn(len(k))]
		}
		return str()
	}
	for _, ch := range order {
		switch ch {
		case 't':
			info = append(info, 0x11)
			info = ref.TTHStr2(info, str())
		case 's':
			n := r.Intn(4)
			info = append(info, 0x01)
			info = ref.U16(info, uint16(n))
			for i := 0; i < n; i++ {
				info = ref.TTHStr2(info, key())
				info = ref.TTHStr2(info, str())
			}
		case 'i':
			n := r.Intn(4)
			info = append(info, 0x10)
			info = ref.U16(info, uint16(n))
			for i := 0; i < n; i++ {
				info = ref.U16(info, uint16(r.Intn(50)))
				info = ref.TTHStr2(info, str())
			}
		case 'p':
			info = append(info, 0)
		}
	}
	for len(info)%4 != 0 {
		info = append(info, 0)
	}
	return info
}

func frameOf(cs *drv.Case, info []byte, payload int) []byte {
	r := cs.R
	f := ref.TTHEncode(uint32(10+len(info)+payload), 0x1000, uint16(r.Intn(65536)), gen.I32(r), uint16(len(info)/4), info)
	for i := 0; i < payload; i++ {
		f = append(f, 0xE0|byte(i&15))
	}
	return f
}

func monC10(c *drv.Ctx) {
	if fuzzReplayStage(c) {
		return
	}
	// (1) all 65536 header-size fields x 3 bodies
	c.Stage("all-size-fields", 65536*3, true, func(cs *drv.Case) {
		sf := uint16(cs.Idx % 65536)
		body := cs.Idx / 65536
		var info []byte
		switch body {
		case 0: // long zero-padded body, always long enough
			info = make([]byte, 4*65535+8)
		case 1: // body cut at a random point
			n := cs.R.Intn(int(sf)*4 + 8)
			info = make([]byte, n)
		default: // valid sections followed by zeros up to the declared size (+ payload bytes)
			info = validInfo(cs, []string{"tsi", "s", "i", "t", "is"}[cs.R.Intn(5)])
			for len(info) < int(sf)*4+5 {
				info = append(info, 0)
			}
		}
		f := ref.TTHEncode(uint32(cs.R.Intn(1<<20)), 0x1000, uint16(cs.Idx), int32(cs.Idx), sf, info)
		cs.Desc = M{"size_field": sf, "body": body, "frame_len": len(f)}
		c10Check(cs, f, cs.Idx%64 == 0)
		cs.Count(true, "sizefield", sf, body)
		if sf >= 0x4000 {
			cs.C.Obs("size fields >= 0x4000 tried", 1)
		}
	})
	// (2) all flags, all protocol ids, all info ids, all magic high halves
	c.Stage("all-flags", 65536, true, func(cs *drv.Case) {
		info := validInfo(cs, "si")
		f := ref.TTHEncode(100, 0x1000, uint16(cs.Idx), 5, uint16(len(info)/4), info)
		c10Check(cs, f, false)
		cs.Count(true, "flags", cs.Idx)
	})
	c.Stage("all-magic", 65536, true, func(cs *drv.Case) {
		info := validInfo(cs, "t")
		f := ref.TTHEncode(100, uint16(cs.Idx), 0, 5, uint16(len(info)/4), info)
		c10Check(cs, f, false)
		cs.Count(true, "magic", cs.Idx)
	})
	c.Stage("all-protocol-and-info-ids", 256*2, true, func(cs *drv.Case) {
		v := byte(cs.Idx)
		info := validInfo(cs, "s")
		if cs.Idx < 256 {
			info[0] = v
		} else {
			// a section with this id, followed by plausible section content
			info = append(info[:2:2], v, 0, 1, 0, 1, 'k', 0, 1, 'v')
			for len(info)%4 != 0 {
				info = append(info, 0)
			}
		}
		c10Check(cs, frameOf(cs, info, 6), true)
		cs.Count(true, "ids", cs.Idx)
	})
	// (3) transform counts
	c.Stage("transform-counts", 256, true, func(cs *drv.Case) {
		for _, n := range []int{2, 4, 8, 64, 256, 260} {
			info := make([]byte, n)
			info[1] = byte(cs.Idx)
			for i := 2; i < n; i++ {
				info[i] = byte(cs.R.Intn(3)) * 0x10
			}
			c10Check(cs, frameOf(cs, info, 0), false)
		}
		cs.Count(true, "transforms", cs.Idx)
	})
	// (4) section orders / repeats / interleaved padding, then truncation and perturbation
	orders := []string{"", "t", "s", "i", "ts", "st", "si", "is", "tsi", "ist", "sis", "tt", "ss", "ii", "psp", "ptpspi", "sppi", "tpppps", "ippp"}
	c.Stage("mutated-frames", c.Pick(30000, 3000000), false, func(cs *drv.Case) {
		r := cs.R
		order := orders[r.Intn(len(orders))]
		info := validInfo(cs, order)
		f := frameOf(cs, info, r.Intn(12))
		hdr := 14 + len(info)
		cs.Desc = M{"order": order, "frame_hex": hexOf(f)}
		c10Check(cs, f, cs.Idx%4 == 0)
		// perturbations
		switch r.Intn(5) {
		case 0:
			cut := r.Intn(len(f))
			c10Check(cs, f[:cut], cs.Idx%4 == 1)
		case 1:
			m := append([]byte(nil), f...)
			m[r.Intn(hdr)] = gen.BoundaryBytes[r.Intn(len(gen.BoundaryBytes))]
			c10Check(cs, m, cs.Idx%4 == 1)
		case 2:
			m := append([]byte(nil), f...)
			p := 14 + r.Intn(len(info))
			m[p] = byte(r.Intn(256))
			c10Check(cs, m, false)
		case 3:
			// a string length that overshoots the header by 1..3 bytes while payload bytes follow
			m := append([]byte(nil), f...)
			over := 1 + r.Intn(3)
			tail := []byte{0x11, 0, byte(3 + over), 'a', 'b', 'c'}
			tail[0] = []byte{0x11, 0x11, 0x11}[r.Intn(3)]
			// replace the last 6 bytes of the info block (keeping the size) when it is large enough
			if len(info) >= 8 {
				blk := append([]byte{info[0], 0}, tail...)
				for len(blk)%4 != 0 {
					blk = append(blk[:2:2], append([]byte{0}, blk[2:]...)...)
				}
				m = ref.TTHEncode(100, 0x1000, 0, 1, uint16(len(blk)/4), blk)
				m = append(m, 'P', 'A', 'Y', 'L')
			}
			c10Check(cs, m, false)
			cs.C.Obs("overshooting string lengths", 1)
		default:
			// all truncation points of a short frame
			if len(f) <= 80 {
				for cut := 0; cut < len(f); cut++ {
					c10Check(cs, f[:cut], false)
				}
				cs.C.Obs("full truncation sweeps", 1)
			}
		}
		cs.Count(true, order, f)
		if cs.WantSample() && cs.Idx%997 == 1 {
			cs.Sample(cs.Desc)
		}
	})
	// (5) every declared string length overshooting the end of the info block by 1..4, per section kind
	c.Stage("overshoot-grid", 3*4*2*4, true, func(cs *drv.Case) {
		i := cs.Idx
		kind := i % 3
		over := int(i/3)%4 + 1
		withPayload := (i/12)%2 == 1
		padFront := int(i / 24) // padding bytes before the section to vary alignment
		blk := []byte{0, 0}
		for k := 0; k < padFront; k++ {
			blk = append(blk, 0)
		}
		body := []byte("abcdefgh")
		switch kind {
		case 0:
			blk = append(blk, 0x11)
		case 1:
			blk = append(blk, 0x01, 0, 1, 0, 1, 'k')
		default:
			blk = append(blk, 0x10, 0, 1, 0, 7)
		}
		// choose the string so that the block (with length prefix) ends exactly on a 4-byte boundary, then overshoot
		n := 0
		for (len(blk)+2+n)%4 != 0 {
			n++
		}
		blk = ref.U16(blk, uint16(n+over))
		blk = append(blk, body[:n]...)
		f := ref.TTHEncode(200, 0x1000, 0, 9, uint16(len(blk)/4), blk)
		if withPayload {
			f = append(f, 'P', 'A', 'Y', 'L', 'O', 'A', 'D')
		}
		cs.Desc = M{"kind": kind, "overshoot": over, "with_payload": withPayload, "frame_hex": hexOf(f)}
		c10Check(cs, f, true)
		cs.Count(true, "overshoot", i)
		cs.C.Obs("overshooting string lengths", 1)
	})
}
