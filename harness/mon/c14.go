package mon

import (
	"bytes"
	"context"
	"fmt"
	"io"
	"math/rand"
	"runtime"
	"strings"
	"sync"
	"sync/atomic"
	"unsafe"

	"github.com/cloudwego/gopkg/bufiox"
	"github.com/cloudwego/gopkg/container/strmap"
	"github.com/cloudwego/gopkg/protocol/thrift"
	"github.com/cloudwego/gopkg/protocol/thrift/base"
	"github.com/cloudwego/gopkg/protocol/thrift/unknownfields"
	"github.com/cloudwego/gopkg/protocol/ttheader"

	"verifharness/doubles"
	"verifharness/drv"
	"verifharness/ref"
)

func init() { drv.Register("C14", monC14) }

// tagged payload: byte k of the payload of (goroutine g, iteration i)
func tagByte(g, i, k int) byte { return byte(g*59 + i*31 + k*7 + (k >> 8) + 3) }

func taggedBytes(g, i, salt, n int) []byte {
	b := make([]byte, n)
	for k := range b {
		b[k] = tagByte(g, i+salt*1000003, k)
	}
	return b
}

// gState is goroutine-local: nothing here is shared until the goroutines have been joined,
// so the monitor adds no synchronisation between the instances under test.
type gState struct {
	g       int
	r       *rand.Rand
	objs    map[uintptr]int // pooled object address -> uses
	cycles  map[string]int
	failure *c14Failure
	// values decoded in the previous cycle, kept across Recycle/Release: they must never change
	prevGot   [][]byte
	prevWant  [][]byte
	scratches [][]byte
	ownInt    *strmap.StrMap[int]
	ownStr    *strmap.Str2Str
}

type c14Failure struct {
	check  string
	detail M
}

func (s *gState) fail(check string, iter int, msg string, a ...interface{}) {
	if s.failure == nil {
		s.failure = &c14Failure{check, M{"goroutine": s.g, "iteration": iter, "message": fmt.Sprintf(msg, a...)}}
	}
}

func (s *gState) seen(p unsafe.Pointer) { s.objs[uintptr(p)]++ }

var c14Sizes = []int{0, 1, 7, 100, 1000, 4095, 4096, 4097, 5000, 9000, 20000}

func (s *gState) size() int {
	if s.r.Intn(3) == 0 {
		return c14Sizes[s.r.Intn(len(c14Sizes))]
	}
	return s.r.Intn(200)
}

// one create/use/release cycle of the stream writer + reader
func (s *gState) cycleWriterReader(i int) {
	n := 1 + s.r.Intn(6)
	var want []byte
	sink := &doubles.Sink{Yield: true}
	dw := bufiox.NewDefaultWriter(sink)
	bw := thrift.NewBufferWriter(dw)
	s.seen(unsafe.Pointer(bw))
	vals := make([][]byte, n)
	for k := 0; k < n; k++ {
		vals[k] = taggedBytes(s.g, i, k, s.size())
		want = ref.EncFieldBegin(want, ref.STRING, int16(k))
		want = ref.EncBinary(want, vals[k])
		want = ref.EncI64(want, int64(s.g)<<32|int64(i))
		bw.WriteFieldBegin(thrift.STRING, int16(k))
		if k%2 == 0 {
			bw.WriteBinary(vals[k])
		} else {
			bw.WriteString(string(vals[k]))
		}
		bw.WriteI64(int64(s.g)<<32 | int64(i))
		if s.r.Intn(4) == 0 {
			dw.Flush()
		}
	}
	if err := dw.Flush(); err != nil {
		s.fail("concurrent-writer", i, "Flush: %v", err)
	}
	bw.Recycle()
	got := sink.All()
	if !bytes.Equal(got, want) {
		s.fail("concurrent-writer-bytes", i, "stream writer output differs from this goroutine's own data at byte %d of %d (foreign bytes?)", firstDiff(got, want), len(want))
		return
	}
	for k := range s.prevGot {
		if !bytes.Equal(s.prevGot[k], s.prevWant[k]) {
			s.fail("concurrent-decoded-value-changed", i, "a value decoded in the previous cycle (len %d) changed after its reader was recycled (foreign bytes at %d)", len(s.prevWant[k]), firstDiff(s.prevGot[k], s.prevWant[k]))
			return
		}
	}
	s.prevGot, s.prevWant = s.prevGot[:0], s.prevWant[:0]
	// read it back through a pooled reader over a yielding, fragmenting source
	src := &doubles.Source{Data: want, Len: len(want), ErrAt: len(want), Err: io.EOF, Sched: s.r.Intn(doubles.NSched), R: s.r, Yield: true, Budget: 10*len(want) + 100000}
	dr := bufiox.NewDefaultReader(src)
	br := thrift.NewBufferReader(dr)
	s.seen(unsafe.Pointer(br))
	for k := 0; k < n; k++ {
		_, id, err := br.ReadFieldBegin()
		if err != nil || id != int16(k) {
			s.fail("concurrent-reader", i, "ReadFieldBegin = (%d, %v), want id %d", id, err, k)
			break
		}
		var b []byte
		if k%2 == 0 {
			b, err = br.ReadBinary()
			if err == nil {
				s.prevGot = append(s.prevGot, b)
				s.prevWant = append(s.prevWant, vals[k])
			}
		} else {
			var str string
			str, err = br.ReadString()
			b = []byte(str)
		}
		if err != nil || !bytes.Equal(b, vals[k]) {
			s.fail("concurrent-reader-bytes", i, "value %d read back differs from this goroutine's own data (err=%v, first diff %d of %d)", k, err, firstDiff(b, vals[k]), len(vals[k]))
			break
		}
		v, err := br.ReadI64()
		if err != nil || v != int64(s.g)<<32|int64(i) {
			s.fail("concurrent-reader-bytes", i, "i64 tag read back as %#x (err=%v)", v, err)
			break
		}
		if s.r.Intn(3) == 0 {
			dr.Release(nil)
		}
	}
	dr.Release(nil)
	br.Recycle()
	s.cycles["writer+reader"]++
}

// skip decoders over this goroutine's own values (incl. values > 4 KiB for the io.Reader one)
func (s *gState) cycleSkipDecoders(i int) {
	n := 1 + s.r.Intn(4)
	var stream []byte
	encs := make([][]byte, n)
	for k := 0; k < n; k++ {
		v := ref.Value{T: ref.STRUCT, Fields: []ref.Field{{ID: 1, V: ref.Value{T: ref.STRING, S: taggedBytes(s.g, i, k, s.size())}}, {ID: 2, V: ref.Value{T: ref.I64, I: int64(s.g)<<32 | int64(i)}}}}
		encs[k] = v.Encode(nil)
		stream = append(stream, encs[k]...)
	}
	// bytes decoder
	bd := thrift.NewBytesSkipDecoder(stream)
	s.seen(unsafe.Pointer(bd))
	for k := 0; k < n; k++ {
		out, err := bd.Next(thrift.STRUCT)
		if err != nil || !bytes.Equal(out, encs[k]) {
			s.fail("concurrent-skipdecoder-bytes", i, "BytesSkipDecoder value %d differs (err=%v)", k, err)
			break
		}
	}
	bd.Release()
	// reader decoder over a yielding source; the result must survive until the next Next
	src := &doubles.Source{Data: stream, Len: len(stream), ErrAt: len(stream), Err: io.EOF, Sched: s.r.Intn(doubles.NSched), R: s.r, Yield: true, WithData: s.r.Intn(2) == 0, Budget: 10*len(stream) + 100000}
	rd := thrift.NewReaderSkipDecoder(src)
	s.seen(unsafe.Pointer(rd))
	for k := 0; k < n; k++ {
		out, err := rd.Next(thrift.STRUCT)
		if err != nil || !bytes.Equal(out, encs[k]) {
			s.fail("concurrent-skipdecoder-bytes", i, "ReaderSkipDecoder value %d differs (err=%v, first diff %d of %d)", k, err, firstDiff(out, encs[k]), len(encs[k]))
			break
		}
		if s.r.Intn(3) == 0 {
			rd.Grow(1 + s.r.Intn(5000)) // exported; must not hand the outstanding result's buffer to other goroutines
		}
		runtime.Gosched()
		if !bytes.Equal(out, encs[k]) {
			s.fail("concurrent-skipdecoder-bytes", i, "ReaderSkipDecoder result %d changed under us before the next Next call (foreign bytes at %d)", k, firstDiff(out, encs[k]))
			break
		}
	}
	rd.Release()
	// buffered-reader decoder
	src2 := &doubles.Source{Data: stream, Len: len(stream), ErrAt: len(stream), Err: io.EOF, Sched: s.r.Intn(doubles.NSched), R: s.r, Yield: true, Budget: 10*len(stream) + 100000}
	dr := bufiox.NewDefaultReader(src2)
	sd := thrift.NewSkipDecoder(dr)
	s.seen(unsafe.Pointer(sd))
	var held [][]byte
	for k := 0; k < n; k++ {
		out, err := sd.Next(thrift.STRUCT)
		if err != nil || !bytes.Equal(out, encs[k]) {
			s.fail("concurrent-skipdecoder-bytes", i, "SkipDecoder value %d differs (err=%v)", k, err)
			break
		}
		held = append(held, out)
	}
	runtime.Gosched()
	for k := range held {
		if !bytes.Equal(held[k], encs[k]) {
			s.fail("concurrent-skipdecoder-bytes", i, "SkipDecoder result %d changed before Release (foreign bytes at %d)", k, firstDiff(held[k], encs[k]))
			break
		}
	}
	sd.Release()
	dr.Release(nil)
	// the exported SkipN of a decoder fresh from the pool starts at its reader's current position
	nb := &doubles.NBReader{B: stream}
	d2 := thrift.NewSkipDecoder(nb)
	if b, err := d2.SkipN(3); err != nil || len(stream) >= 3 && !bytes.Equal(b, stream[:3]) {
		if len(stream) >= 3 {
			s.fail("concurrent-skipdecoder-bytes", i, "SkipN(3) on a decoder fresh from the pool returned %x (err=%v), want %x: state of a previous user leaked", b, err, stream[:3])
		}
	}
	d2.Release()
	s.cycles["skip-decoders"]++
}

// cycleFailing makes pooled decoders / readers fail half way through a value and releases them:
// whatever a failed call leaves in a pooled object is inherited by the next user (any goroutine).
func (s *gState) cycleFailing(i int) {
	v := ref.Value{T: ref.STRUCT, Fields: []ref.Field{{ID: 1, V: ref.Value{T: ref.STRING, S: taggedBytes(s.g, i, 9, 20+s.r.Intn(200))}}, {ID: 2, V: ref.Value{T: ref.LIST, VT: ref.I64, Elems: []ref.Value{{T: ref.I64, I: 1}, {T: ref.I64, I: 2}}}}}}
	enc := v.Encode(nil)
	cut := 4 + s.r.Intn(len(enc)-5)
	bad := enc[:cut]
	if s.r.Intn(2) == 0 {
		bad = append(append([]byte(nil), enc[:cut]...), 0x7f, 0x7f, 0x7f, 0x7f)
	}
	nb := &doubles.NBReader{B: bad}
	d := thrift.NewSkipDecoder(nb)
	if _, err := d.Next(thrift.STRUCT); err == nil {
		s.fail("concurrent-skipdecoder-bytes", i, "SkipDecoder accepted a truncated value")
	}
	d.Release()
	bd := thrift.NewBytesSkipDecoder(bad)
	bd.Next(thrift.STRUCT)
	bd.Release()
	rd := thrift.NewReaderSkipDecoder(&doubles.Source{Data: bad, Len: len(bad), ErrAt: len(bad), Err: io.EOF, Sched: doubles.SchedSmall, R: s.r, Yield: true, Budget: 100000})
	rd.Next(thrift.STRUCT)
	rd.Release()
	dr := bufiox.NewDefaultReader(&doubles.Source{Data: bad, Len: len(bad), ErrAt: len(bad), Err: doubles.ErrCustom, Sched: doubles.SchedSmall, R: s.r, Yield: true, Budget: 100000})
	br := thrift.NewBufferReader(dr)
	br.Skip(thrift.STRUCT)
	br.Recycle()
	dr.Release(nil)
	// the shipped structs fail on the same kind of input in every goroutine at once: the error each gets is its
	// own (it names its own struct and field, once) and does not change afterwards
	trunc := ref.U32(ref.EncFieldBegin(nil, ref.STRING, 1), uint32(50+s.r.Intn(50)))
	trunc = append(trunc, taggedBytes(s.g, i, 3, s.r.Intn(20))...)
	var ferr error
	own, other := "*base.Base read field", "*base.BaseResp"
	if s.r.Intn(2) == 0 {
		_, ferr = (&base.Base{}).FastRead(trunc)
	} else {
		_, ferr = (&base.BaseResp{}).FastRead(trunc)
		own, other = "*base.BaseResp read field", "*base.Base read"
	}
	if ferr == nil {
		s.fail("concurrent-stream-bytes", i, "FastRead accepted a truncated struct")
	} else {
		t1 := ferr.Error()
		runtime.Gosched()
		t2 := ferr.Error()
		if t1 != t2 || strings.Count(t1, own) != 1 || strings.Contains(t1, other) {
			s.fail("concurrent-error-text", i, "the error of a failed FastRead does not name its own struct once, or changed after it was returned: %q then %q", t1, t2)
		}
	}
	s.cycles["failing-calls"]++
}

// c14SharedParam is one header parameter set that every goroutine encodes from (a fan-out of one request):
// Encode only reads it, so sharing it is legal, and the frames decode to its content.
var c14SharedParam = ttheader.EncodeParam{Flags: 3, SeqID: 4242, ProtocolID: ttheader.ProtocolIDThriftBinary,
	IntInfo: map[uint16]string{1: "one", 7: "seven", 900: "nine hundred"},
	StrInfo: map[string]string{ttheader.GDPRToken: "shared-token", "k1": "v1", "k2": "v2", "isn": "svc"}}

func (s *gState) cycleSharedHeaderParam(i int) {
	ctx := context.Background()
	buf, err := ttheader.EncodeToBytes(ctx, c14SharedParam)
	if err != nil {
		s.fail("concurrent-ttheader", i, "EncodeToBytes(shared parameters): %v", err)
		return
	}
	runtime.Gosched()
	d, err := ttheader.DecodeFromBytes(ctx, buf)
	if err != nil || d.SeqID != 4242 || len(d.IntInfo) != 3 || len(d.StrInfo) != 4 || d.StrInfo[ttheader.GDPRToken] != "shared-token" || d.StrInfo["k2"] != "v2" || d.IntInfo[900] != "nine hundred" {
		s.fail("concurrent-ttheader-bytes", i, "a frame encoded from parameters shared by all goroutines decodes to other content (err=%v, str=%v, int=%v)", err, d.StrInfo, d.IntInfo)
		return
	}
	if len(c14SharedParam.StrInfo) != 4 || len(c14SharedParam.IntInfo) != 3 {
		s.fail("concurrent-ttheader-bytes", i, "the shared parameter maps were changed by Encode")
		return
	}
	s.cycles["shared-header-param"]++
}

func (s *gState) cycleTTHeader(i int) {
	ctx := context.Background()
	p := ttheader.EncodeParam{Flags: ttheader.HeaderFlags(s.g), SeqID: int32(i), ProtocolID: ttheader.ProtocolIDThriftBinary,
		IntInfo: map[uint16]string{uint16(s.g): string(taggedBytes(s.g, i, 1, 1+s.r.Intn(40)))},
		StrInfo: map[string]string{"k": string(taggedBytes(s.g, i, 2, s.r.Intn(300)))}}
	buf, err := ttheader.EncodeToBytes(ctx, p)
	if err != nil {
		s.fail("concurrent-ttheader", i, "EncodeToBytes: %v", err)
		return
	}
	runtime.Gosched()
	d, err := ttheader.DecodeFromBytes(ctx, buf)
	if err != nil || d.SeqID != int32(i) || uint16(d.Flags) != uint16(s.g) || d.IntInfo[uint16(s.g)] != p.IntInfo[uint16(s.g)] || d.StrInfo["k"] != p.StrInfo["k"] {
		s.fail("concurrent-ttheader-bytes", i, "bytes-backed TTHeader round trip returned foreign data (err=%v)", err)
		return
	}
	sink := &doubles.Sink{Yield: true}
	dw := bufiox.NewDefaultWriter(sink)
	if _, err := ttheader.Encode(ctx, p, dw); err != nil {
		s.fail("concurrent-ttheader", i, "Encode: %v", err)
		return
	}
	dw.Flush()
	frame := sink.All()
	src := &doubles.Source{Data: frame, Len: len(frame), ErrAt: len(frame), Err: io.EOF, Sched: s.r.Intn(doubles.NSched), R: s.r, Yield: true, Budget: 10*len(frame) + 100000}
	dr := bufiox.NewDefaultReader(src)
	d, err = ttheader.Decode(ctx, dr)
	dr.Release(nil)
	if err != nil || d.SeqID != int32(i) || d.IntInfo[uint16(s.g)] != p.IntInfo[uint16(s.g)] || d.StrInfo["k"] != p.StrInfo["k"] {
		s.fail("concurrent-ttheader-bytes", i, "stream-backed TTHeader round trip returned foreign data (err=%v)", err)
	}
	// a hand-built frame that carries transform ids (this package's encoder never writes any)
	nt := 1 + s.r.Intn(6)
	info := []byte{0, byte(nt)}
	for k := 0; k < nt; k++ {
		info = append(info, byte(s.g+k))
	}
	info = append(info, 0x10, 0, 1)
	info = ref.U16(info, uint16(s.g))
	info = ref.TTHStr2(info, string(taggedBytes(s.g, i, 3, 1+s.r.Intn(20))))
	for len(info)%4 != 0 {
		info = append(info, 0)
	}
	f := ref.TTHEncode(uint32(10+len(info)), 0x1000, uint16(s.g), int32(i), uint16(len(info)/4), info)
	d2, err := ttheader.DecodeFromBytes(ctx, f)
	if err != nil || d2.SeqID != int32(i) || d2.IntInfo[uint16(s.g)] != string(taggedBytes(s.g, i, 3, len(d2.IntInfo[uint16(s.g)]))) {
		s.fail("concurrent-ttheader-bytes", i, "frame with %d transform ids decoded wrongly (err=%v)", nt, err)
	}
	// a caller-owned, empty slice in front of a power-of-two scratch area handed to a bytes reader
	scratch := make([]byte, 4096)
	for k := range scratch {
		scratch[k] = byte(s.g)
	}
	ttheader.DecodeFromBytes(ctx, scratch[:0])
	rd := bufiox.NewBytesReader(scratch[:0])
	rd.Next(1)
	rd.Release(nil)
	s.scratches = append(s.scratches, scratch)
	if len(s.scratches) > 8 {
		old := s.scratches[0]
		s.scratches = s.scratches[1:]
		for k := range old {
			if old[k] != byte(s.g) {
				s.fail("concurrent-caller-memory", i, "a caller-owned scratch buffer given (empty) to a bytes reader was overwritten at %d: it ended up in the shared pool", k)
				break
			}
		}
	}
	s.cycles["ttheader"]++
}

func (s *gState) cycleBinaryAndFastCodec(i int) {
	// span cache is on (set before the goroutines started)
	n := 2 + s.r.Intn(6)
	var wire []byte
	vals := make([][]byte, n)
	for k := range vals {
		vals[k] = taggedBytes(s.g, i, k, s.size())
		wire = ref.EncBinary(wire, vals[k])
	}
	off := 0
	var got [][]byte
	var gots []string
	for k := range vals {
		if k%2 == 0 {
			b, l, err := thrift.Binary.ReadBinary(wire[off:])
			if err != nil {
				s.fail("concurrent-binary", i, "ReadBinary: %v", err)
				return
			}
			got = append(got, b)
			gots = append(gots, "")
			off += l
		} else {
			str, l, err := thrift.Binary.ReadString(wire[off:])
			if err != nil {
				s.fail("concurrent-binary", i, "ReadString: %v", err)
				return
			}
			got = append(got, nil)
			gots = append(gots, str)
			off += l
		}
	}
	runtime.Gosched()
	for k := range vals {
		if (k%2 == 0 && !bytes.Equal(got[k], vals[k])) || (k%2 == 1 && gots[k] != string(vals[k])) {
			s.fail("concurrent-binary-bytes", i, "value %d decoded with the span allocator holds foreign bytes", k)
			return
		}
	}
	orig := &base.Base{LogID: string(taggedBytes(s.g, i, 50, s.r.Intn(60))), Caller: string(taggedBytes(s.g, i, 51, s.size())), Addr: "a", Extra: map[string]string{"g": fmt.Sprint(s.g), "i": fmt.Sprint(i)}}
	b := thrift.FastMarshal(orig)
	q := base.NewBase()
	if err := thrift.FastUnmarshal(b, q); err != nil || q.LogID != orig.LogID || q.Caller != orig.Caller || q.Extra["g"] != fmt.Sprint(s.g) || q.Extra["i"] != fmt.Sprint(i) {
		s.fail("concurrent-fastcodec-bytes", i, "FastMarshal/FastUnmarshal round trip returned foreign data (err=%v)", err)
		return
	}
	msg, err := thrift.MarshalFastMsg("m", thrift.CALL, int32(i), orig)
	if err == nil {
		q2 := base.NewBase()
		if _, seq, err := thrift.UnmarshalFastMsg(msg, q2); err != nil || seq != int32(i) || q2.Caller != orig.Caller {
			s.fail("concurrent-fastcodec-bytes", i, "MarshalFastMsg/UnmarshalFastMsg round trip returned foreign data (err=%v)", err)
		}
	}
	s.cycles["binary+fastcodec"]++
}

// sharedMaps are loaded by the coordinating goroutine and only read by the workers.
type sharedMaps struct {
	im   *strmap.StrMap[int]
	sm   *strmap.Str2Str
	want map[string]int
	keys []string
}

func newSharedMaps(r *rand.Rand, n int) *sharedMaps {
	m := &sharedMaps{want: map[string]int{}}
	vals := make([]int, 0, n)
	svals := make([]string, 0, n)
	for i := 0; i < n; i++ {
		k := fmt.Sprintf("%s-%d", string(rune('a'+r.Intn(26))), r.Intn(100*n+10))
		if i%7 == 0 {
			k = k[:1+r.Intn(len(k))]
		}
		if _, dup := m.want[k]; dup {
			continue
		}
		m.want[k] = i
		m.keys = append(m.keys, k)
		vals = append(vals, i)
		svals = append(svals, fmt.Sprint("v", i))
	}
	m.im = strmap.NewFromSlice(m.keys, vals)
	m.sm = strmap.NewStr2StrFromSlice(m.keys, svals)
	return m
}

type c14HolderA struct {
	A              int
	_unknownFields []byte
}

type c14HolderB struct {
	A, B, C        string
	D              []int
	_unknownFields []byte
	E              int
}

// unknown fields of two different struct types (the bytes sit at different field positions) fetched by many
// goroutines at once: each call must return the tree of the bytes its own struct holds
func (s *gState) cycleUnknownFields(i int) {
	mk := func(salt int) ([]byte, int64, string) {
		x := int64(s.g)<<40 | int64(i)<<16 | int64(salt)
		str := string(taggedBytes(s.g, i, salt, 1+s.r.Intn(20)))
		b := ref.EncFieldBegin(nil, ref.I64, int16(100+salt))
		b = ref.EncI64(b, x)
		b = ref.EncFieldBegin(b, ref.STRING, int16(200+salt))
		b = ref.EncBinary(b, []byte(str))
		return b, x, str
	}
	for rep := 0; rep < 6; rep++ {
		ba, xa, sa := mk(rep * 2)
		bb, xb, sb := mk(rep*2 + 1)
		var fa, fb []unknownfields.UnknownField
		var ea, eb error
		if s.r.Intn(2) == 0 {
			fa, ea = unknownfields.GetUnknownFields(&c14HolderA{A: 1, _unknownFields: ba})
			fb, eb = unknownfields.GetUnknownFields(&c14HolderB{A: "a", _unknownFields: bb})
		} else {
			fb, eb = unknownfields.GetUnknownFields(&c14HolderB{A: "a", _unknownFields: bb})
			fa, ea = unknownfields.GetUnknownFields(&c14HolderA{A: 1, _unknownFields: ba})
		}
		ok := func(f []unknownfields.UnknownField, e error, x int64, str string) bool {
			if e != nil || len(f) != 2 {
				return false
			}
			v0, ok0 := f[0].Value.(int64)
			v1, ok1 := f[1].Value.(string)
			return ok0 && ok1 && v0 == x && v1 == str
		}
		if !ok(fa, ea, xa, sa) || !ok(fb, eb, xb, sb) {
			s.fail("concurrent-unknown-fields", i, "GetUnknownFields returned a tree that is not the one of the struct's own bytes (errors: %v, %v)", ea, eb)
			return
		}
		runtime.Gosched()
	}
	s.cycles["unknown-fields"]++
}

// every goroutine loads and queries maps of its own (instances are never shared here): a load of one
// instance must not disturb another instance that is being loaded or queried at the same time
func (s *gState) cycleOwnMaps(i int) {
	n := 1 + s.r.Intn(60)
	wi := make(map[string]int, n)
	ws := make(map[string]string, n)
	for k := 0; k < n; k++ {
		key := fmt.Sprintf("g%d-i%d-k%d-%s", s.g, i, k, string(taggedBytes(s.g, i, k, s.r.Intn(12))))
		wi[key] = s.g<<20 | i<<8 | k
		ws[key] = fmt.Sprintf("val-%d-%d-%d", s.g, i, k)
	}
	if s.ownInt == nil || s.r.Intn(4) == 0 {
		s.ownInt, s.ownStr = strmap.New[int](), strmap.NewStr2Str()
	}
	if err := s.ownInt.LoadFromMap(wi); err != nil {
		s.fail("concurrent-own-map", i, "LoadFromMap: %v", err)
		return
	}
	if err := s.ownStr.LoadFromMap(ws); err != nil {
		s.fail("concurrent-own-map", i, "Str2Str.LoadFromMap: %v", err)
		return
	}
	if s.ownInt.Len() != n || s.ownStr.Len() != n {
		s.fail("concurrent-own-map", i, "Len after load = %d / %d, want %d", s.ownInt.Len(), s.ownStr.Len(), n)
		return
	}
	for k, v := range wi {
		if got, ok := s.ownInt.Get(k); !ok || got != v {
			s.fail("concurrent-own-map", i, "this goroutine's own StrMap lost or changed key %q: (%d, %v), want %d", k, got, ok, v)
			return
		}
		if got, ok := s.ownStr.Get(k); !ok || got != ws[k] {
			s.fail("concurrent-own-map", i, "this goroutine's own Str2Str lost or changed key %q: (%q, %v), want %q", k, got, ok, ws[k])
			return
		}
	}
	if _, ok := s.ownStr.Get("absent-key"); ok {
		s.fail("concurrent-own-map", i, "an absent key is reported present")
	}
	s.cycles["own-maps"]++
}

// a peeked slice kept while a later, larger request makes the reader's buffer grow must still show this
// goroutine's own bytes just before Release, whatever other goroutines take from the shared pool meanwhile
func (s *gState) cyclePeekRetain(i int) {
	total := 4097 + s.r.Intn(12000)
	data := taggedBytes(s.g, i, 77, total)
	src := &doubles.Source{Data: data, Len: len(data), ErrAt: len(data), Err: io.EOF, Sched: s.r.Intn(doubles.NSched), R: s.r, Yield: true, Budget: 10*len(data) + 100000}
	dr := bufiox.NewDefaultReader(src)
	k := 1 + s.r.Intn(64)
	head, err := dr.Peek(k)
	if err != nil || !bytes.Equal(head, data[:k]) {
		s.fail("concurrent-reader-bytes", i, "Peek(%d) differs from this goroutine's own data (err=%v)", k, err)
		return
	}
	big := 4097 + s.r.Intn(total-4096)
	var rest []byte
	if s.r.Intn(2) == 0 {
		rest, err = dr.Peek(big)
	} else {
		rest, err = dr.Next(big)
	}
	if err != nil || !bytes.Equal(rest, data[:big]) {
		s.fail("concurrent-reader-bytes", i, "a %d-byte request after Peek(%d) differs from this goroutine's own data (err=%v)", big, k, err)
		return
	}
	// let other goroutines run and allocate, write something through a writer of our own
	runtime.Gosched()
	sink := &doubles.Sink{Yield: true}
	dw := bufiox.NewDefaultWriter(sink)
	if b, err := dw.Malloc(3000 + s.r.Intn(2000)); err == nil {
		for x := range b {
			b[x] = 0xEE
		}
	}
	dw.Flush()
	if !bytes.Equal(head, data[:k]) {
		s.fail("concurrent-retained-slice-changed", i, "the %d bytes returned by Peek changed before Release, after a larger request and other pool users (first diff %d)", k, firstDiff(head, data[:k]))
		return
	}
	if !bytes.Equal(rest, data[:big]) {
		s.fail("concurrent-retained-slice-changed", i, "the %d bytes of the larger request changed before Release", big)
		return
	}
	dr.Release(nil)
	s.cycles["peek-retain"]++
}

func (s *gState) cycleSharedMaps(i int, m *sharedMaps) {
	// no warm-up lookup: the first Gets on a freshly loaded map happen concurrently
	for q := 0; q < 40; q++ {
		k := m.keys[s.r.Intn(len(m.keys))]
		if s.r.Intn(4) == 0 {
			k += "?"
		}
		want, wok := m.want[k]
		got, ok := m.im.Get(k)
		if ok != wok || (ok && got != want) {
			s.fail("concurrent-map-get", i, "shared StrMap.Get(%q) = (%d, %v), want (%d, %v)", k, got, ok, want, wok)
			return
		}
		sv, ok := m.sm.Get(k)
		if ok != wok || (ok && sv != fmt.Sprint("v", want)) {
			s.fail("concurrent-map-get", i, "shared Str2Str.Get(%q) = (%q, %v), want (v%d, %v)", k, sv, ok, want, wok)
			return
		}
	}
	if m.im.Len() != len(m.want) || m.sm.Len() != len(m.want) {
		s.fail("concurrent-map-get", i, "Len of a shared map is wrong")
	}
	j := s.r.Intn(m.im.Len())
	k, v := m.im.Item(j)
	if w, ok := m.want[k]; !ok || w != v {
		s.fail("concurrent-map-get", i, "Item(%d) of a shared map returned a pair that was not loaded", j)
	}
	s.cycles["shared-maps"]++
}

func monC14(c *drv.Ctx) {
	type cfg struct{ G, P, iters int }
	var grid []cfg
	race := c.Flavour != "plain" && c.Flavour != "go126"
	iters := 120
	if !race {
		iters = 1200
	}
	if c.Thorough() {
		for _, g := range []int{8, 32, 64} {
			for _, p := range []int{2, 4, 16} {
				for rep := 0; rep < 4; rep++ {
					grid = append(grid, cfg{g, p, iters})
				}
			}
		}
	} else {
		grid = []cfg{{8, 4, iters}, {32, 16, iters / 2}, {16, 2, iters / 2}, {64, 16, iters / 3}}
	}
	thrift.SetSpanCache(true) // set once, before any goroutine of the workload exists
	defer thrift.SetSpanCache(false)
	defer runtime.GOMAXPROCS(runtime.GOMAXPROCS(0))

	c.Stage("executions", int64(len(grid)), false, func(cs *drv.Case) {
		g := grid[cs.Idx]
		runtime.GOMAXPROCS(g.P)
		maps := make([]*sharedMaps, 6)
		for k := range maps {
			maps[k] = newSharedMaps(cs.R, []int{1, 5, 24, 100, 700, 3000}[k])
		}
		if cs.Idx%4 == 0 {
			// a map of more than 2^18 keys, loaded last: whatever a load of that size sets in motion must be over
			// when it returns, the goroutines query it the moment they start
			maps = append(maps, newSharedMaps(cs.R, 340000)) // (about a sixth of the generated keys are duplicates and dropped)
			cs.C.Obs("shared maps of more than 2^18 keys", 1)
		}
		states := make([]*gState, g.G)
		var wg sync.WaitGroup
		start := make(chan struct{})
		for gi := 0; gi < g.G; gi++ {
			st := &gState{g: gi, r: drv.NewRand(cs.R.Int63()), objs: map[uintptr]int{}, cycles: map[string]int{}}
			states[gi] = st
			wg.Add(1)
			go func() {
				defer wg.Done()
				defer func() {
					if r := recover(); r != nil {
						st.fail("concurrent-panic", -1, "panic: %v", r)
					}
				}()
				<-start
				if len(maps) > 6 {
					st.cycleSharedMaps(0, maps[6])
				}
				// the very first action of every goroutine is a lookup on the freshly loaded maps
				st.cycleSharedMaps(0, maps[st.g%len(maps)])
				for i := 1; i <= g.iters && st.failure == nil; i++ {
					switch st.r.Intn(11) {
					case 10:
						st.cycleSharedHeaderParam(i)
					case 9:
						st.cycleUnknownFields(i)
					case 8:
						st.cycleOwnMaps(i)
					case 7:
						st.cyclePeekRetain(i)
					case 6:
						st.cycleFailing(i)
					case 0, 1:
						st.cycleWriterReader(i)
					case 2:
						st.cycleSkipDecoders(i)
					case 3:
						st.cycleTTHeader(i)
					case 4:
						st.cycleBinaryAndFastCodec(i)
					default:
						st.cycleSharedMaps(i, maps[st.r.Intn(len(maps))])
					}
				}
			}()
		}
		close(start)
		wg.Wait()
		// merge (after the join: no synchronisation was added while the workload ran)
		owners := map[uintptr]int{}
		total := map[string]int{}
		for _, st := range states {
			for p := range st.objs {
				owners[p]++
			}
			for k, v := range st.cycles {
				total[k] += v
			}
			if st.failure != nil {
				d := st.failure.detail
				d["G"], d["GOMAXPROCS"] = g.G, g.P
				cs.Fail(st.failure.check, nil, d)
			}
		}
		shared := 0
		for _, n := range owners {
			if n >= 2 {
				shared++
			}
		}
		cs.C.Obs("pooled objects used by >= 2 goroutines", int64(shared))
		for k, v := range total {
			cs.C.Obs("cycles "+k, int64(v))
		}
		cs.C.Obs("executions", 1)
		cs.Desc = M{"G": g.G, "GOMAXPROCS": g.P, "iterations_per_goroutine": g.iters, "flavour": c.Flavour, "pooled_objects_shared": shared}
		cs.Count(shared > 0, c.Flavour, g.G, g.P, cs.Idx, cs.C.Seed)
		cs.Sample(cs.Desc)
	})

	// (2) acquire/release storms: every goroutine does nothing but take one kind of pooled object, use it for one
	// tiny tagged value and give it back, so that the constructors and Release/Recycle themselves run against each
	// other all the time. Besides the content checks an ownership monitor watches the objects: between leaving a
	// constructor and being handed to Release/Recycle an object belongs to one goroutine.
	stormKinds := []string{"ReaderSkipDecoder", "BytesSkipDecoder", "SkipDecoder", "BufferReader", "BufferWriter"}
	stormIters := 4000
	if race {
		stormIters = 700
	}
	c.Stage("acquire-release-storms", int64(len(stormKinds))*c.Pick(2, 12), false, func(cs *drv.Case) {
		kind := int(cs.Idx) % len(stormKinds)
		G := []int{6, 12, 24}[cs.R.Intn(3)]
		P := []int{4, 8, 16}[cs.R.Intn(3)]
		runtime.GOMAXPROCS(P)
		var owners sync.Map // object address -> *int32 (0 free, g+1 owned by goroutine g)
		claim := func(p unsafe.Pointer, g int) (*int32, bool) {
			cell, _ := owners.LoadOrStore(uintptr(p), new(int32))
			c := cell.(*int32)
			return c, atomic.CompareAndSwapInt32(c, 0, int32(g+1))
		}
		states := make([]*gState, G)
		var wg sync.WaitGroup
		start := make(chan struct{})
		for gi := 0; gi < G; gi++ {
			st := &gState{g: gi, r: drv.NewRand(cs.R.Int63()), objs: map[uintptr]int{}, cycles: map[string]int{}}
			states[gi] = st
			wg.Add(1)
			go func() {
				defer wg.Done()
				defer func() {
					if r := recover(); r != nil {
						st.fail("concurrent-panic", -1, "panic: %v", r)
					}
				}()
				<-start
				for i := 0; i < stormIters && st.failure == nil; i++ {
					payload := taggedBytes(st.g, i, 0, 1+st.r.Intn(40))
					enc := ref.EncBinary(nil, payload)
					var obj unsafe.Pointer
					var cell *int32
					own := func(p unsafe.Pointer) bool {
						obj = p
						var ok bool
						if cell, ok = claim(p, st.g); !ok {
							st.fail("pooled-object-owned-twice", i, "%s %p was handed to this goroutine while goroutine %d had not released it", stormKinds[kind], p, atomic.LoadInt32(cell)-1)
						}
						return ok
					}
					var out []byte
					var err error
					switch kind {
					case 0:
						d := thrift.NewReaderSkipDecoder(bytes.NewReader(enc))
						if !own(unsafe.Pointer(d)) {
							return
						}
						out, err = d.Next(thrift.STRING)
						out = append([]byte(nil), out...)
						atomic.StoreInt32(cell, 0)
						d.Release()
					case 1:
						d := thrift.NewBytesSkipDecoder(enc)
						if !own(unsafe.Pointer(d)) {
							return
						}
						out, err = d.Next(thrift.STRING)
						out = append([]byte(nil), out...)
						atomic.StoreInt32(cell, 0)
						d.Release()
					case 2:
						d := thrift.NewSkipDecoder(&doubles.NBReader{B: enc})
						if !own(unsafe.Pointer(d)) {
							return
						}
						out, err = d.Next(thrift.STRING)
						out = append([]byte(nil), out...)
						atomic.StoreInt32(cell, 0)
						d.Release()
					case 3:
						br := thrift.NewBufferReader(&doubles.NBReader{B: enc})
						if !own(unsafe.Pointer(br)) {
							return
						}
						var v []byte
						v, err = br.ReadBinary()
						out = ref.EncBinary(nil, v)
						if err == nil && br.Readn() != int64(len(enc)) {
							st.fail("concurrent-stream-bytes", i, "BufferReader fresh from the pool reports %d bytes read after a %d-byte value", br.Readn(), len(enc))
						}
						atomic.StoreInt32(cell, 0)
						br.Recycle()
					default:
						sink := &doubles.Sink{}
						dw := bufiox.NewDefaultWriter(sink)
						bw := thrift.NewBufferWriter(dw)
						if !own(unsafe.Pointer(bw)) {
							return
						}
						err = bw.WriteBinary(payload)
						atomic.StoreInt32(cell, 0)
						bw.Recycle()
						dw.Flush()
						out = sink.All()
					}
					st.seen(obj)
					if err != nil || !bytes.Equal(out, enc) {
						st.fail("concurrent-stream-bytes", i, "%s: the value of this goroutine came back as %d bytes (err=%v, first diff %d of %d)", stormKinds[kind], len(out), err, firstDiff(out, enc), len(enc))
					}
					st.cycles["storm "+stormKinds[kind]]++
				}
			}()
		}
		close(start)
		wg.Wait()
		ownersSeen := map[uintptr]int{}
		total := 0
		for _, st := range states {
			for p := range st.objs {
				ownersSeen[p]++
			}
			for _, v := range st.cycles {
				total += v
			}
			if st.failure != nil {
				d := st.failure.detail
				d["G"], d["GOMAXPROCS"], d["kind"] = G, P, stormKinds[kind]
				cs.Fail(st.failure.check, M{"kind": stormKinds[kind]}, d)
			}
		}
		shared := 0
		for _, n := range ownersSeen {
			if n >= 2 {
				shared++
			}
		}
		cs.C.Obs("storm cycles "+stormKinds[kind], int64(total))
		cs.C.Obs("storm: pooled objects used by >= 2 goroutines", int64(shared))
		cs.Desc = M{"kind": stormKinds[kind], "G": G, "GOMAXPROCS": P, "iterations_per_goroutine": stormIters, "flavour": c.Flavour, "pooled_objects_shared": shared}
		cs.Count(shared > 0, "storm", c.Flavour, kind, G, P, cs.Idx, cs.C.Seed)
	})
}
