package mon

import (
	"bytes"
	"fmt"
	"math"

	"github.com/cloudwego/gopkg/protocol/thrift"
	uf "github.com/cloudwego/gopkg/protocol/thrift/unknownfields"

	"verifharness/drv"
	"verifharness/gen"
	"verifharness/ref"
)

func init() { drv.Register("C13", monC13) }

// expectedField converts the generator's value into the unknown-field tree the statement prescribes:
// element IDs are indices, key/value type tags appear only on containers.
func expectedField(id int16, v *ref.Value) uf.UnknownField {
	f := uf.UnknownField{ID: id, Type: thrift.TType(v.T)}
	switch v.T {
	case ref.BOOL:
		f.Value = v.Bool
	case ref.BYTE:
		f.Value = int8(v.I)
	case ref.I16:
		f.Value = int16(v.I)
	case ref.I32:
		f.Value = int32(v.I)
	case ref.I64:
		f.Value = v.I
	case ref.DOUBLE:
		f.Value = math.Float64frombits(v.F)
	case ref.STRING:
		f.Value = string(v.S)
	case ref.LIST, ref.SET:
		f.ValType = thrift.TType(v.VT)
		es := make([]uf.UnknownField, len(v.Elems))
		for i := range v.Elems {
			es[i] = expectedField(int16(i), &v.Elems[i])
		}
		f.Value = es
	case ref.MAP:
		f.KeyType, f.ValType = thrift.TType(v.KT), thrift.TType(v.VT)
		es := make([]uf.UnknownField, len(v.Elems))
		for i := range v.Elems {
			es[i] = expectedField(int16(i/2), &v.Elems[i])
		}
		f.Value = es
	case ref.STRUCT:
		es := make([]uf.UnknownField, len(v.Fields))
		for i := range v.Fields {
			es[i] = expectedField(v.Fields[i].ID, &v.Fields[i].V)
		}
		f.Value = es
	}
	return f
}

// diffField returns "" when the trees are equal (doubles by bits, nil == empty slices).
func diffField(path string, a, b *uf.UnknownField) string {
	if a.ID != b.ID {
		return fmt.Sprintf("%s: ID %d != %d", path, a.ID, b.ID)
	}
	if a.Type != b.Type {
		return fmt.Sprintf("%s: Type %d != %d", path, a.Type, b.Type)
	}
	if a.KeyType != b.KeyType {
		return fmt.Sprintf("%s (type %d): KeyType %d != %d", path, a.Type, a.KeyType, b.KeyType)
	}
	if a.ValType != b.ValType {
		return fmt.Sprintf("%s (type %d): ValType %d != %d", path, a.Type, a.ValType, b.ValType)
	}
	switch av := a.Value.(type) {
	case []uf.UnknownField:
		bv, ok := b.Value.([]uf.UnknownField)
		if !ok && b.Value != nil {
			return fmt.Sprintf("%s: value kind differs (%T vs %T)", path, a.Value, b.Value)
		}
		if len(av) != len(bv) {
			return fmt.Sprintf("%s: %d vs %d children", path, len(av), len(bv))
		}
		for i := range av {
			if d := diffField(fmt.Sprintf("%s/%d", path, i), &av[i], &bv[i]); d != "" {
				return d
			}
		}
		return ""
	case float64:
		bv, ok := b.Value.(float64)
		if !ok || math.Float64bits(av) != math.Float64bits(bv) {
			return fmt.Sprintf("%s: double %v vs %v", path, a.Value, b.Value)
		}
		return ""
	case nil:
		if bv, ok := b.Value.([]uf.UnknownField); ok && len(bv) == 0 {
			return ""
		}
		if b.Value != nil {
			return fmt.Sprintf("%s: nil vs %T", path, b.Value)
		}
		return ""
	}
	if a.Value != b.Value {
		return fmt.Sprintf("%s: value %v (%T) vs %v (%T)", path, a.Value, a.Value, b.Value, b.Value)
	}
	return ""
}

func diffFields(a, b []uf.UnknownField) string {
	if len(a) != len(b) {
		return fmt.Sprintf("top level: %d vs %d fields", len(a), len(b))
	}
	for i := range a {
		if d := diffField(fmt.Sprintf("#%d", i), &a[i], &b[i]); d != "" {
			return d
		}
	}
	return ""
}

func c13Check(cs *drv.Case, fields []ref.Field) {
	var wire []byte
	want := make([]uf.UnknownField, len(fields))
	for i := range fields {
		wire = ref.EncFieldBegin(wire, fields[i].V.T, fields[i].ID)
		wire = fields[i].V.Encode(wire)
		want[i] = expectedField(fields[i].ID, &fields[i].V)
	}
	fail := func(check, msg string, a ...interface{}) {
		cs.Fail(check, nil, M{"wire_hex": hexOf(wire), "message": fmt.Sprintf(msg, a...)})
	}
	if len(wire) == 0 {
		return // the documented "empty" error
	}
	in := append([]byte(nil), wire...)
	got, err := uf.ConvertUnknownFields(in)
	// the tree is a value: the caller may reuse its input buffer right away
	for k := range in {
		in[k] = 0xFF
	}
	if err == nil {
		_, err2 := uf.ConvertUnknownFields(place(wire, 0)) // guard-page placement as well
		if err2 != nil {
			err = err2
		}
	}
	if err != nil {
		fail("convert-error", "ConvertUnknownFields failed on well-formed fields: %v", err)
		return
	}
	if d := diffFields(got, want); d != "" {
		fail("convert-tree", "converted tree differs from the expected tree at %s", d)
		return
	}
	l, err := uf.UnknownFieldsLength(got)
	if err != nil || l != len(wire) {
		fail("unknown-fields-length", "UnknownFieldsLength = (%d, %v), encoded bytes: %d", l, err, len(wire))
		return
	}
	out := dirty(len(wire))
	n, err := uf.WriteUnknownFields(out, got)
	if err != nil || n != len(wire) || !bytes.Equal(out, wire) {
		fail("write-bytes", "WriteUnknownFields = (%d, %v); bytes equal: %v (first diff at %d)", n, err, bytes.Equal(out, wire), firstDiff(out, wire))
		return
	}
	// the same bytes reached through GetUnknownFields (struct value and pointer), then the buffer is reused
	{
		type holderA struct {
			X              int
			_unknownFields []byte
		}
		hb := append([]byte(nil), wire...)
		ha := &holderA{X: 1, _unknownFields: hb}
		g1, e1 := uf.GetUnknownFields(ha)
		g2, e2 := uf.GetUnknownFields(*ha)
		for k := range hb {
			hb[k] = 0xFF
		}
		if e1 != nil || e2 != nil {
			fail("getunknownfields-error", "GetUnknownFields failed: ptr=%v value=%v", e1, e2)
			return
		}
		if d := diffFields(g1, want); d != "" {
			fail("getunknownfields-tree", "tree from GetUnknownFields(ptr) differs (after the source buffer was reused) at %s", d)
			return
		}
		if d := diffFields(g2, want); d != "" {
			fail("getunknownfields-tree", "tree from GetUnknownFields(value) differs at %s", d)
			return
		}
		// an application struct that embeds the generated one (by value, by pointer): the bytes are still its own
		type outerV struct {
			Y string
			holderA
		}
		type outerP struct {
			*holderA
			Z int
		}
		hc := append([]byte(nil), wire...)
		g3, e3 := uf.GetUnknownFields(&outerV{Y: "y", holderA: holderA{X: 2, _unknownFields: hc}})
		g4, e4 := uf.GetUnknownFields(outerP{holderA: &holderA{X: 3, _unknownFields: hc}, Z: 4})
		if e3 != nil || e4 != nil {
			fail("getunknownfields-error", "GetUnknownFields on a struct that embeds the holder failed: by value %v, by pointer %v", e3, e4)
			return
		}
		if d := diffFields(g3, want); d != "" {
			fail("getunknownfields-tree", "tree from a struct embedding the holder by value differs at %s", d)
			return
		}
		if d := diffFields(g4, want); d != "" {
			fail("getunknownfields-tree", "tree from a struct embedding the holder by pointer differs at %s", d)
			return
		}
	}
	// conversely: the expected (well-typed) tree survives write-then-convert
	l2, err := uf.UnknownFieldsLength(want)
	if err != nil || l2 != len(wire) {
		fail("unknown-fields-length", "UnknownFieldsLength(expected tree) = (%d, %v), want %d", l2, err, len(wire))
		return
	}
	out2 := dirty(l2)
	if _, err := uf.WriteUnknownFields(out2, want); err != nil {
		fail("write-error", "%v", err)
		return
	}
	back, err := uf.ConvertUnknownFields(out2)
	if err != nil {
		fail("convert-error", "write-then-convert failed: %v", err)
		return
	}
	if d := diffFields(back, want); d != "" {
		fail("write-then-convert", "tree changed at %s", d)
		return
	}
	// a hand-built tree may refer to one element slice from several places (two equal structs built from one field
	// slice): it is well-typed and acyclic, and is written like the tree in which the slices are separate copies
	deepest := 0
	for i := range fields {
		if n := fields[i].V.Nesting(); n > deepest {
			deepest = n
		}
	}
	if len(wire) <= 4096 && deepest <= 50 {
		shared := []uf.UnknownField{{ID: 9, Type: thrift.LIST, ValType: thrift.STRUCT, Value: []uf.UnknownField{
			{ID: 0, Type: thrift.STRUCT, Value: want}, {ID: 1, Type: thrift.STRUCT, Value: want}}},
			{ID: 10, Type: thrift.STRUCT, Value: want}}
		one := append(append([]byte(nil), wire...), 0)
		exp := ref.EncListBegin(ref.EncFieldBegin(nil, ref.LIST, 9), ref.STRUCT, 2)
		exp = append(append(exp, one...), one...)
		exp = append(ref.EncFieldBegin(exp, ref.STRUCT, 10), one...)
		l3, err := uf.UnknownFieldsLength(shared)
		if err != nil || l3 != len(exp) {
			fail("unknown-fields-length", "tree that refers to one element slice three times: UnknownFieldsLength = (%d, %v), encoded bytes: %d", l3, err, len(exp))
			return
		}
		out3 := dirty(len(exp))
		if n3, err := uf.WriteUnknownFields(out3, shared); err != nil || n3 != len(exp) || !bytes.Equal(out3, exp) {
			fail("write-bytes", "tree that refers to one element slice three times: WriteUnknownFields = (%d, %v); bytes equal: %v (first diff at %d)", n3, err, bytes.Equal(out3, exp), firstDiff(out3, exp))
			return
		}
		cs.C.Obs("trees with shared element slices written", 1)
	}
	cs.C.Obs("field sequences round-tripped", 1)
	cs.C.Obs("bytes compared", int64(len(wire)))
}

// two distinct struct types with the same name, the unknown-fields buffer at different positions
func c13HolderOne(b []byte) interface{} {
	type holder struct {
		_unknownFields []byte
		Other          []byte
	}
	return &holder{_unknownFields: b, Other: []byte{0x0b, 0, 9, 0, 0, 0, 1, 'x'}}
}

func c13HolderTwo(b []byte) interface{} {
	type holder struct {
		Other          []byte
		_unknownFields []byte
	}
	return &holder{Other: []byte{0x0b, 0, 9, 0, 0, 0, 1, 'x'}, _unknownFields: b}
}

func monC13(c *drv.Ctx) {
	c.Stage("same-named-holder-types", 4, true, func(cs *drv.Case) {
		wire := ref.EncI32(ref.EncFieldBegin(nil, ref.I32, 5), int32(cs.Idx)+100)
		for round := 0; round < 2; round++ {
			for k, h := range []interface{}{c13HolderOne(wire), c13HolderTwo(wire)} {
				got, err := uf.GetUnknownFields(h)
				if err != nil || len(got) != 1 || got[0].ID != 5 || got[0].Value != int32(cs.Idx)+100 {
					cs.Fail("getunknownfields-wrong-field", nil, M{"holder": k, "round": round, "err": errString(err), "got": fmt.Sprint(got)})
					return
				}
			}
		}
		cs.Count(true, "holders", cs.Idx)
	})
	opts := func(cs *drv.Case) gen.TreeOpts {
		return gen.TreeOpts{MaxDepth: 1 + cs.R.Intn(5), MaxElems: 5, Canonical: true, AnyFieldIDs: true, BigStrings: cs.R.Intn(30) == 0}
	}
	// (1) random field sequences
	c.Stage("sequences", c.Pick(200000, 3000000), false, func(cs *drv.Case) {
		r := cs.R
		n := 1 + r.Intn(5)
		fields := make([]ref.Field, n)
		hasContainer, nestedSiblings := false, false
		for i := range fields {
			t := ref.KnownTypes[r.Intn(len(ref.KnownTypes))]
			fields[i] = ref.Field{ID: gen.I16(r), V: gen.Tree(r, t, opts(cs), 0)}
			if fields[i].V.Nesting() >= 1 {
				hasContainer = true
			}
			if fields[i].V.Nesting() >= 2 {
				nestedSiblings = true
			}
		}
		shape := ""
		for _, f := range fields {
			shape += fmt.Sprintf("%d:%d/%d ", f.ID, f.V.T, f.V.Nesting())
		}
		cs.Desc = M{"fields(id:type/nesting)": shape}
		c13Check(cs, fields)
		cs.Count(hasContainer || nestedSiblings, fields)
		if cs.WantSample() && hasContainer && cs.Idx%701 == 1 {
			cs.Sample(cs.Desc)
		}
	})
	// (2) stale-tag trap: inside nested structs, a container field followed by other fields
	// a caller's buffer that is used again: the same backing array, the same length, other content (the next
	// message in a receive buffer, a value patched in place). Each conversion must describe the bytes it is given.
	c.Stage("reused-buffer", c.Pick(4000, 100000), false, func(cs *drv.Case) {
		r := cs.R
		buf := make([]byte, 0, 512)
		for round := 0; round < 3; round++ {
			x := gen.I64(r)
			str := gen.Bytes(r, 6)
			fields := []ref.Field{{ID: 7, V: ref.Value{T: ref.I64, I: x}}, {ID: 9, V: ref.Value{T: ref.STRING, S: str}},
				{ID: 11, V: ref.Value{T: ref.LIST, VT: ref.I32, Elems: []ref.Value{{T: ref.I32, I: int64(int32(x))}, {T: ref.I32, I: int64(round)}}}}}
			var enc []byte
			for _, f := range fields {
				enc = append(ref.EncFieldBegin(enc, f.V.T, f.ID), f.V.Encode(nil)...)
			}
			buf = append(buf[:0], enc...) // same array, same length every round
			got, err := uf.ConvertUnknownFields(buf)
			if err != nil || len(got) != 3 {
				cs.Fail("convert-error", M{"when": "reused buffer"}, M{"round": round, "err": errString(err), "fields": len(got)})
				return
			}
			l, e1 := uf.UnknownFieldsLength(got)
			out := dirty(l)
			n, e2 := uf.WriteUnknownFields(out, got)
			if e1 != nil || e2 != nil || n != len(enc) || !bytes.Equal(out, enc) {
				cs.Fail("convert-stale-tree", M{"when": "reused buffer"}, M{"round": round, "input_hex": hexOf(enc), "written_hex": hexOf(out[:minInt(n, len(out))]),
					"message": "the tree converted from a buffer that is used again (same array, same length, new content) does not write back to the bytes it was converted from"})
				return
			}
		}
		cs.Count(true, "reused", cs.Idx)
		cs.C.Obs("conversions from a reused buffer", 3)
	})

	c.Stage("sibling-tags", 11*11*4, true, func(cs *drv.Case) {
		i := cs.Idx
		first := ref.KnownTypes[i%11]
		second := ref.KnownTypes[(i/11)%11]
		wrap := (i / 121) % 4
		o := gen.TreeOpts{MaxDepth: 2, MaxElems: 3, Canonical: true}
		inner := ref.Value{T: ref.STRUCT, Fields: []ref.Field{
			{ID: 1, V: gen.Tree(cs.R, first, o, 1)},
			{ID: 2, V: gen.Tree(cs.R, second, o, 1)},
			{ID: 3, V: ref.Value{T: ref.I32, I: 5}},
		}}
		var top ref.Value
		switch wrap {
		case 0:
			top = inner
		case 1:
			top = ref.Value{T: ref.LIST, VT: ref.STRUCT, Elems: []ref.Value{inner, inner}}
		case 2:
			top = ref.Value{T: ref.MAP, KT: ref.I32, VT: ref.STRUCT, Elems: []ref.Value{{T: ref.I32, I: 1}, inner}}
		default:
			top = ref.Value{T: ref.STRUCT, Fields: []ref.Field{{ID: 9, V: inner}, {ID: 10, V: ref.Value{T: ref.BOOL, Bool: true}}}}
		}
		fields := []ref.Field{{ID: 7, V: top}, {ID: 8, V: gen.Tree(cs.R, second, o, 1)}}
		cs.Desc = M{"first": first, "second": second, "wrap": wrap}
		c13Check(cs, fields)
		cs.Count(true, "siblings", i)
		cs.C.Obs("sibling-tag cases", 1)
	})
	// (2b) large containers: element ids are int16(index); counts around 2^14, 2^15, 2^16
	c.Stage("large-containers", 4*6, true, func(cs *drv.Case) {
		n := []int{16384, 16385, 32767, 32768, 32769, 66000}[cs.Idx%6]
		shape := cs.Idx / 6
		elems := func(t byte, k int) []ref.Value {
			out := make([]ref.Value, k)
			for i := range out {
				out[i] = ref.Value{T: t, I: int64(i & 0x7f), Bool: i%2 == 0}
			}
			return out
		}
		var v ref.Value
		switch shape {
		case 0:
			v = ref.Value{T: ref.LIST, VT: ref.BYTE, Elems: elems(ref.BYTE, n)}
		case 1:
			v = ref.Value{T: ref.SET, VT: ref.BOOL, Elems: elems(ref.BOOL, n)}
		case 2:
			v = ref.Value{T: ref.MAP, KT: ref.BYTE, VT: ref.BOOL, Elems: elems(ref.BYTE, 2*n)}
			for i := 1; i < len(v.Elems); i += 2 {
				v.Elems[i].T = ref.BOOL
			}
		default:
			v = ref.Value{T: ref.STRUCT, Fields: []ref.Field{{ID: 1, V: ref.Value{T: ref.LIST, VT: ref.I16, Elems: elems(ref.I16, n)}}, {ID: 2, V: ref.Value{T: ref.I32, I: 5}}}}
		}
		cs.Desc = M{"shape": shape, "elements": n}
		c13Check(cs, []ref.Field{{ID: 3, V: v}, {ID: 4, V: ref.Value{T: ref.I64, I: 1}}})
		cs.Count(true, "large", shape, n)
		cs.C.Obs("large-container cases", 1)
	})

	// (2c) nesting 1..64 entered through every position: conversion agrees with what skip accepts
	c.Stage("nesting-paths", int64(len(gen.NestPaths))*70, true, func(cs *drv.Case) {
		depth := int(cs.Idx%70) + 1
		path := gen.NestPaths[cs.Idx/70]
		b, top := gen.NestedPath(path, depth, cs.Idx%3 == 0)
		wire := append(ref.EncFieldBegin(nil, top, 11), b...)
		cs.Desc = M{"path": path, "depth": depth, "wire_hex": hexOf(wire)}
		got, err := uf.ConvertUnknownFields(place(wire, 0))
		if depth >= 65 {
			cs.C.DontCare("nesting>=65 (beyond the recursion limit)")
			return
		}
		if err != nil {
			cs.Fail("convert-error", M{"stage": "nesting"}, M{"depth": depth, "path": path, "err": errString(err), "message": "a well-formed field with at most 64 container levels was rejected"})
			return
		}
		l, err := uf.UnknownFieldsLength(got)
		out := dirty(len(wire))
		n, err2 := uf.WriteUnknownFields(out, got)
		if err != nil || err2 != nil || l != len(wire) || n != len(wire) || !bytes.Equal(out, wire) {
			cs.Fail("write-bytes", M{"stage": "nesting"}, M{"depth": depth, "path": path, "length": l, "written": n, "want": len(wire)})
			return
		}
		cs.Count(depth >= 2, "nest", path, depth)
		cs.C.ObsMax("max_nesting_converted", int64(depth))
	})

	// (3) every container x element type combination with 0..3 elements (length arithmetic)
	c.Stage("combo-grid", 11*11*4*3, true, func(cs *drv.Case) {
		i := cs.Idx
		kt := ref.KnownTypes[i%11]
		vt := ref.KnownTypes[(i/11)%11]
		n := int((i / 121) % 4)
		kind := []byte{ref.MAP, ref.LIST, ref.SET}[i/484]
		if kind != ref.MAP && kt != ref.KnownTypes[0] {
			return
		}
		o := gen.TreeOpts{MaxDepth: 2, MaxElems: 2, Canonical: true}
		v := gen.TreeOfCombo(cs.R, kind, kt, vt, n, o)
		cs.Desc = M{"kind": kind, "kt": kt, "vt": vt, "n": n}
		c13Check(cs, []ref.Field{{ID: int16(i), V: v}})
		cs.Count(n > 0, "combo", i)
		cs.C.Obs("combo-grid cases", 1)
	})
}
