package mon

import (
	"bytes"
	"context"
	"fmt"
	"io"
	"math/rand"
	"runtime"
	"time"

	"github.com/cloudwego/gopkg/bufiox"
	"github.com/cloudwego/gopkg/protocol/thrift"
	"github.com/cloudwego/gopkg/protocol/ttheader"

	"verifharness/doubles"
	"verifharness/drv"
	"verifharness/gen"
	"verifharness/ref"
	"verifharness/san"
)

func init() { drv.Register("C09", monC09) }

// growth-forcing request sizes
var c09Sizes = []int{1, 3, 100, 4000, 4096, 4097, 8193, 20000, 70000}

func c09ReaderOps(cs *drv.Case) []rOp {
	r := cs.R
	n := 2 + r.Intn(10)
	ops := make([]rOp, 0, n+2)
	for i := 0; i < n; i++ {
		k := r.Intn(12)
		var op rOp
		switch {
		case k < 5:
			op.Kind = opNext
		case k < 9:
			op.Kind = opPeek
		case k < 10:
			op.Kind = opSkip
		case k < 11:
			op.Kind = opReadBinary
		default:
			op.Kind = opRelease
		}
		if r.Intn(3) == 0 {
			op.N = c09Sizes[r.Intn(len(c09Sizes))]
		} else {
			op.N = r.Intn(300)
		}
		ops = append(ops, op)
	}
	return ops
}

func monC09(c *drv.Ctx) {
	// configuration A = poisoning shim build; configuration B = real pool + co-tenant
	cfgName := "B:real-pool+co-tenant"
	if san.PoolShim {
		cfgName = "A:poisoning-shim"
	}
	n := c.Pick(40000, 1000000)
	if san.PoolShim {
		n = c.Pick(20000, 400000)
	}

	// (1) reader histories retaining everything until Release, with growths in between
	c.Stage("reader-retain", n, false, func(cs *drv.Case) {
		r := cs.R
		ops := c09ReaderOps(cs)
		need := sumOps(ops)
		spec := srcSpec{Len: need + r.Intn(3000), Sched: r.Intn(doubles.NSched), WithData: r.Intn(2) == 0, ZeroMax: r.Intn(3)}
		if r.Intn(4) == 0 {
			spec.Len = r.Intn(need + 1)
		}
		spec.ErrAt = spec.Len
		o := readerOpts{retain: true, cotenant: !san.PoolShim}
		if r.Intn(3) == 0 {
			o.bytesReader = true
			o.capClass = r.Intn(4)
			if r.Intn(6) == 0 {
				// a zero-length (or tiny) slice whose backing array is a 4096-byte scratch buffer
				spec.Len = r.Intn(3)
				o.capClass = 4
			}
			// power-of-two sized caller buffers are the ones the real pool would accept
			if r.Intn(2) == 0 {
				spec.Len = []int{64, 1024, 4096, 8192, 16384}[r.Intn(5)]
				if o.capClass == 4 {
					spec.Len = r.Intn(3)
				}
				if o.capClass == 0 {
					o.capClass = 1
				}
			}
			spec.ErrAt = spec.Len
		}
		cs.Desc = M{"config": cfgName, "ops": opsString(ops), "source": spec.desc(), "bytes_reader": o.bytesReader, "cap_class": o.capClass}
		runReaderHistory(cs, ops, spec, o)
		nt := false
		peeked := false
		for _, op := range ops {
			if (op.Kind == opNext || op.Kind == opPeek) && op.N > 0 {
				peeked = true
			} else if peeked && op.N > 4096 {
				nt = true
			}
		}
		cs.Count(nt || o.bytesReader, cfgName, opsString(ops), spec, o.bytesReader, o.capClass)
		if nt {
			cs.C.Obs("reader histories retaining a slice across a growth", 1)
		}
		if o.bytesReader {
			cs.C.Obs("caller-owned reader buffers", 1)
		}
		if nt && cs.WantSample() && cs.Idx%97 == 1 {
			cs.Sample(cs.Desc)
		}
	})

	// (1b) targeted: Peek/Next small, then grow 0..6 times, then verify, for each first op kind and ReadLen state
	c.Stage("reader-growth-ladder", 2*2*7*6, true, func(cs *drv.Case) {
		i := cs.Idx
		firstPeek := i%2 == 0
		consumeFirst := (i/2)%2 == 0
		growths := int((i / 4) % 7)
		sched := int(i / 28)
		var ops []rOp
		if consumeFirst {
			ops = append(ops, rOp{Kind: opNext, N: 10})
		}
		if firstPeek {
			ops = append(ops, rOp{Kind: opPeek, N: 50})
		} else {
			ops = append(ops, rOp{Kind: opNext, N: 50})
		}
		sz := 4096
		for g := 0; g < growths; g++ {
			sz *= 2
			kind := opPeek
			if g%2 == 1 {
				kind = opNext
			}
			ops = append(ops, rOp{Kind: kind, N: sz - 100*(g+1)})
			ops = append(ops, rOp{Kind: opPeek, N: 7})
		}
		ops = append(ops, rOp{Kind: opRelease}, rOp{Kind: opNext, N: 5}, rOp{Kind: opPeek, N: 9000}, rOp{Kind: opRelease})
		need := sumOps(ops) + 600000
		spec := srcSpec{Len: need, ErrAt: need, Sched: sched}
		cs.Desc = M{"config": cfgName, "ops": opsString(ops), "source": spec.desc()}
		runReaderHistory(cs, ops, spec, readerOpts{retain: true, cotenant: !san.PoolShim})
		cs.Count(growths > 0, cfgName, opsString(ops), sched)
		cs.C.Obs("growth ladders", 1)
	})

	// (1c) a reader or writer that is simply dropped (a connection that failed half way through): there never is
	// a Release or Flush, so what it handed out stays the holder's for good - also after the dropped object has
	// been collected and any finalizer of it has run
	c.Stage("abandoned-without-release", c.Pick(60, 600), false, func(cs *drv.Case) {
		r := cs.R
		if san.PoolShim {
			san.PoolReset()
		}
		isWriter := cs.Idx%2 == 1
		var held []heldSlice
		var regions [][]byte
		var snaps [][]byte
		maxReq := 0
		if !isWriter {
			held = c09AbandonReader(r, &maxReq)
		} else {
			regions, snaps = c09AbandonWriter(r, &maxReq)
		}
		for k := 0; k < 3; k++ {
			runtime.GC()
			time.Sleep(time.Millisecond) // lets the finalizer goroutine run; nothing is decided by the clock
		}
		ct := &coTenant{r: r}
		defer ct.done()
		cs.Desc = M{"config": cfgName, "writer": isWriter, "held": len(held) + len(regions)}
		for round := 0; round < 2; round++ {
			if !ct.run(cs, held, nil, regions, maxReq, "abandoned") {
				return
			}
		}
		for _, h := range held {
			if !bytes.Equal(h.b, h.snap) {
				cs.Fail("retained-slice-changed", M{"stage": "abandoned reader"}, M{"message": fmt.Sprintf("slice #%d (%d bytes) of a reader that was dropped without Release changed after a GC and pool reuse (first diff %d)", h.op, len(h.b), firstDiff(h.b, h.snap))})
				return
			}
			if san.PoolShim && san.PoolInFreed(h.b) {
				cs.Fail("retained-slice-in-recycled-memory", M{"stage": "abandoned reader"}, M{"message": "a slice of a reader that was dropped without Release lies in a buffer that went back to the pool"})
				return
			}
		}
		for i, b := range regions {
			if !bytes.Equal(b, snaps[i]) {
				cs.Fail("writer-region-clobbered", M{"stage": "abandoned writer"}, M{"message": fmt.Sprintf("region #%d of a writer that was dropped without Flush changed after a GC and pool reuse", i)})
				return
			}
			if san.PoolShim && san.PoolInFreed(b) {
				cs.Fail("writer-region-in-recycled-memory", M{"stage": "abandoned writer"}, M{"message": "a region of a writer that was dropped without Flush lies in a buffer that went back to the pool"})
				return
			}
		}
		cs.Count(true, cfgName, isWriter, cs.Idx)
		cs.C.Obs("abandoned readers/writers whose slices were re-checked after GC", 1)
	})

	// (1d) components layered over a reader (header decoder, stream codec, skip decoder) consume from it but
	// never release it on the caller's behalf - least of all when they fail: a slice the caller took earlier
	// stays what it was, and ReadLen keeps counting from the caller's own last Release
	c.Stage("layered-failures-keep-slices", c.Pick(3000, 40000), false, func(cs *drv.Case) {
		r := cs.R
		if san.PoolShim {
			san.PoolReset()
		}
		prefix := gen.Bytes(r, 1+r.Intn(300))
		kind := r.Intn(4)
		var body []byte
		var vt byte
		switch kind {
		case 0:
			body, _ = ttheader.EncodeToBytes(context.Background(), ttheader.EncodeParam{SeqID: gen.I32(r), IntInfo: map[uint16]string{uint16(r.Intn(30)): string(gen.Bytes(r, r.Intn(20)))},
				StrInfo: map[string]string{"k" + fmt.Sprint(r.Intn(9)): string(gen.Bytes(r, r.Intn(40)))}})
			body = append(body, gen.Bytes(r, r.Intn(30))...)
		case 3:
			body = ref.EncMessageBegin(nil, string(gen.Bytes(r, r.Intn(30))), int32(1+r.Intn(4)), gen.I32(r))
		default:
			vt = []byte{ref.STRING, ref.LIST, ref.MAP, ref.STRUCT, ref.SET}[r.Intn(5)]
			v := gen.Tree(r, vt, gen.TreeOpts{MaxDepth: 3, MaxElems: 4, NoBigCounts: true}, 0)
			body = v.Encode(nil)
		}
		mutated := r.Intn(3) > 0
		if mutated && len(body) > 0 {
			switch r.Intn(3) {
			case 0:
				body = body[:r.Intn(len(body))]
			case 1:
				body[r.Intn(len(body))] ^= byte(1 + r.Intn(255))
			default:
				k := r.Intn(len(body))
				body[k] = 0xff
				if k+1 < len(body) {
					body[k+1] = 0xff
				}
			}
		}
		stream := append(append(append([]byte(nil), prefix...), body...), gen.Bytes(r, r.Intn(50))...)
		// hostile length fields make a stream reader wait for (and buffer) what they declare: keep that affordable
		var ask uint64
		rest := stream[len(prefix):] // what the component may look at: the (cut) body and whatever follows it
		switch kind {
		case 1, 2:
			ask = ref.Parse(rest, vt).MaxAsk
		case 3:
			if len(rest) >= 8 {
				ask = uint64(uint32(rest[4])<<24 | uint32(rest[5])<<16 | uint32(rest[6])<<8 | uint32(rest[7]))
			}
		}
		if ask > 1<<17 {
			cs.C.DontCare("layered-declared-size-above-cap")
			return
		}
		src := &doubles.Source{Data: stream, Len: len(stream), ErrAt: len(stream), Err: io.EOF, Sched: r.Intn(doubles.NSched), R: r, WithData: r.Intn(2) == 0, Budget: 10*len(stream) + 100000}
		rd := bufiox.NewDefaultReader(src)
		var held []byte
		var err error
		if r.Intn(2) == 0 {
			if held, err = rd.Peek(len(prefix)); err == nil {
				err = rd.Skip(len(prefix))
			}
		} else {
			held, err = rd.Next(len(prefix))
		}
		if err != nil || !bytes.Equal(held, prefix) {
			cs.Fail("retained-slice-changed", M{"stage": "layered, before the component ran"}, M{"err": errString(err)})
			return
		}
		before := rd.ReadLen()
		names := []string{"ttheader.Decode", "BufferReader.Skip", "SkipDecoder.Next", "BufferReader.ReadMessageBegin"}
		cs.Desc = M{"config": cfgName, "component": names[kind], "prefix_len": len(prefix), "body_hex": hexOf(body), "mutated": mutated}
		var cerr error
		func() {
			defer func() {
				if p := recover(); p != nil {
					cerr = fmt.Errorf("panic: %v", p)
				}
			}()
			switch kind {
			case 0:
				_, cerr = ttheader.Decode(context.Background(), rd)
			case 1:
				br := thrift.NewBufferReader(rd)
				cerr = br.Skip(thrift.TType(vt))
				br.Recycle()
			case 2:
				d := thrift.NewSkipDecoder(rd)
				_, cerr = d.Next(thrift.TType(vt))
				d.Release()
			default:
				br := thrift.NewBufferReader(rd)
				_, _, _, cerr = br.ReadMessageBegin()
				br.Recycle()
			}
		}()
		cs.C.ObsMax("layered: largest buffer offered to the source", int64(src.MaxAsk))
		if after := rd.ReadLen(); after < before {
			cs.Fail("layered-component-released-the-reader", M{"component": names[kind], "failed": cerr != nil}, M{"readlen_before": before, "readlen_after": after, "component_error": errString(cerr),
				"message": "ReadLen went back: the component called Release on the reader it was given"})
			return
		}
		ct := &coTenant{r: r}
		defer ct.done()
		if !san.PoolShim {
			if !ct.run(cs, []heldSlice{{b: held, snap: prefix, op: 0}}, nil, nil, len(stream)+8192, "layered") {
				return
			}
		}
		if !bytes.Equal(held, prefix) {
			cs.Fail("retained-slice-changed", M{"stage": "layered", "component": names[kind], "failed": cerr != nil}, M{"component_error": errString(cerr), "first_diff": firstDiff(held, prefix),
				"message": fmt.Sprintf("a slice taken from the reader before %s ran changed although the caller never released it", names[kind])})
			return
		}
		if san.PoolShim && san.PoolInFreed(held) {
			cs.Fail("retained-slice-in-recycled-memory", M{"stage": "layered", "component": names[kind]}, M{"component_error": errString(cerr)})
			return
		}
		rd.Release(nil)
		cs.Count(true, cfgName, kind, hexOf(body), len(prefix))
		if cerr != nil {
			cs.C.Obs("layered components that failed with a caller slice outstanding", 1)
		} else {
			cs.C.Obs("layered components that succeeded with a caller slice outstanding", 1)
		}
	})

	// (2) writer histories: regions stay writable and disjoint until Flush
	c.Stage("writer-retain", n, false, func(cs *drv.Case) {
		r := cs.R
		ops := randomWriterOps(r, 2+r.Intn(12))
		// force growths: sprinkle big requests
		for k := range ops {
			if ops[k].Kind != wFlush && r.Intn(4) == 0 {
				ops[k].N = c09Sizes[r.Intn(len(c09Sizes))]
			}
		}
		o := writerOpts{retain: true, cotenant: !san.PoolShim}
		if r.Intn(3) == 0 {
			o.bytesWriter = true
			o.initClass = r.Intn(5)
			o.initLen = []int{0, 1, 64, 100, 1024, 4096, 4097, 8192}[r.Intn(8)]
		}
		cs.Desc = M{"config": cfgName, "ops": wOpsString(ops), "bytes_writer": o.bytesWriter, "init_class": o.initClass, "init_len": o.initLen}
		nt := runWriterHistory(cs, ops, o)
		cs.Count(nt, cfgName, wOpsString(ops), o)
		if o.bytesWriter {
			cs.C.Obs("caller-owned writer targets", 1)
		}
		if nt && cs.WantSample() && cs.Idx%97 == 2 {
			cs.Sample(cs.Desc)
		}
	})

	// (3) SkipDecoder over a fragmenting source retaining every result until Release
	c.Stage("skipdecoder-retain", c.Pick(1500, 40000), false, func(cs *drv.Case) {
		r := cs.R
		nv := 20 + r.Intn(180)
		if san.PoolShim {
			nv = 10 + r.Intn(40)
		}
		var stream []byte
		var encs [][]byte
		var types []byte
		for i := 0; i < nv; i++ {
			t := ref.KnownTypes[r.Intn(len(ref.KnownTypes))]
			v := gen.Tree(r, t, gen.TreeOpts{MaxDepth: 2, MaxElems: 4, BigStrings: r.Intn(30) == 0}, 0)
			e := v.Encode(nil)
			encs = append(encs, e)
			types = append(types, t)
			stream = append(stream, e...)
		}
		src := &doubles.Source{Data: stream, Len: len(stream), ErrAt: len(stream), Err: io.EOF, Sched: []int{doubles.SchedOne, doubles.SchedSmall, doubles.SchedMixed, doubles.SchedRandom}[r.Intn(4)], R: r, Budget: 10*len(stream) + 100000}
		if san.PoolShim {
			san.PoolReset()
		}
		dr := bufiox.NewDefaultReader(src)
		d := thrift.NewSkipDecoder(dr)
		ct := &coTenant{r: r}
		defer ct.done()
		var held []heldSlice
		cs.Desc = M{"config": cfgName, "values": nv, "stream_len": len(stream), "schedule": doubles.SchedNames[src.Sched]}
		ok := true
		for i := range encs {
			out, err := d.Next(thrift.TType(types[i]))
			if err != nil || !bytes.Equal(out, encs[i]) {
				cs.Fail("skipdecoder-result", nil, M{"value_index": i, "message": fmt.Sprintf("Next returned %d bytes err=%v, want %d", len(out), err, len(encs[i]))})
				ok = false
				break
			}
			held = append(held, heldSlice{b: out, snap: append([]byte(nil), out...), op: i})
			if !san.PoolShim && i%8 == 0 {
				if !ct.run(cs, held, nil, nil, 8192, "skipdecoder") {
					ok = false
					break
				}
			}
			if i%16 == 0 || i == len(encs)-1 {
				for k := range held {
					if !bytes.Equal(held[k].b, held[k].snap) {
						cs.Fail("retained-slice-changed", M{"when": "skipdecoder"}, M{"message": fmt.Sprintf("result #%d changed after %d further values, before Release", k, i-k)})
						ok = false
						break
					}
					if san.PoolShim && san.PoolInFreed(held[k].b) {
						cs.Fail("retained-slice-in-recycled-memory", M{"when": "skipdecoder"}, M{"message": fmt.Sprintf("result #%d lies in recycled memory", k)})
						ok = false
						break
					}
				}
				if !ok {
					break
				}
			}
		}
		d.Release()
		dr.Release(nil)
		if ok && san.PoolShim {
			if f := san.PoolFaults(); len(f) > 0 {
				cs.Fail("pool-discipline", M{"fault": firstWord(f[0])}, M{"faults": f})
			}
		}
		cs.Count(true, cfgName, "skipdec", nv, len(stream), src.Sched)
		cs.C.Obs("skip-decoder results retained", int64(len(held)))
	})

	// (4) ReaderSkipDecoder growth sequences: result valid until the next Next; copy-then-free
	c.Stage("readerskipdecoder-growth", c.Pick(3000, 60000), false, func(cs *drv.Case) {
		r := cs.R
		if san.PoolShim {
			san.PoolReset()
		}
		nv := 2 + r.Intn(8)
		var stream []byte
		var encs [][]byte
		for i := 0; i < nv; i++ {
			l := []int{0, 5, 100, 4000, 4096, 5000, 9000, 20000, 40000}[r.Intn(9)]
			if r.Intn(40) == 0 {
				l = []int{1<<20 + 100, 3 << 19, 4<<20 + 7}[r.Intn(3)] // beyond 1 MiB / 4 MiB
			}
			v := ref.Value{T: ref.STRUCT, Fields: []ref.Field{{ID: 1, V: ref.Value{T: ref.STRING, S: gen.Bytes(r, l)}}, {ID: 2, V: ref.Value{T: ref.I64, I: int64(i)}}, {ID: 3, V: ref.Value{T: ref.STRING, S: gen.Bytes(r, l/3)}}}}
			e := v.Encode(nil)
			encs = append(encs, e)
			stream = append(stream, e...)
		}
		src := &doubles.Source{Data: stream, Len: len(stream), ErrAt: len(stream), Err: io.EOF, Sched: r.Intn(doubles.NSched), R: r, WithData: r.Intn(2) == 0, Budget: 10*len(stream) + 100000}
		d := thrift.NewReaderSkipDecoder(src)
		ct := &coTenant{r: r}
		defer ct.done()
		cs.Desc = M{"config": cfgName, "value_lens": fmt.Sprint(lens(encs)), "schedule": doubles.SchedNames[src.Sched]}
		for i := range encs {
			out, err := d.Next(thrift.STRUCT)
			if err != nil || !bytes.Equal(out, encs[i]) {
				cs.Fail("readerskipdecoder-result", nil, M{"value_index": i, "message": fmt.Sprintf("Next returned %d bytes err=%v, want %d", len(out), err, len(encs[i]))})
				break
			}
			h := []heldSlice{{b: out, snap: append([]byte(nil), out...), op: i}}
			if r.Intn(3) == 0 {
				// Grow is exported (the decoder implements SkipDecoderIface): called between two Next calls it
				// must not give away the buffer the outstanding result lives in
				d.Grow(1 + r.Intn(6000))
				cs.C.Obs("Grow calls while a result is outstanding", 1)
			}
			if san.PoolShim {
				if san.PoolInFreed(out) {
					cs.Fail("retained-slice-in-recycled-memory", M{"when": "readerskipdecoder"}, M{"message": fmt.Sprintf("result #%d lies in memory already recycled into the pool", i)})
					break
				}
			} else if !ct.run(cs, h, nil, nil, len(out), "readerskipdecoder") {
				break
			}
			if !bytes.Equal(out, h[0].snap) {
				cs.Fail("retained-slice-changed", M{"when": "readerskipdecoder"}, M{"message": fmt.Sprintf("result #%d changed before the next Next call", i)})
				break
			}
		}
		d.Release()
		if san.PoolShim {
			if f := san.PoolFaults(); len(f) > 0 {
				cs.Fail("pool-discipline", M{"fault": firstWord(f[0])}, M{"faults": f})
			}
		}
		cs.Count(true, cfgName, "readerskipdec", lens(encs), src.Sched)
		cs.C.Obs("reader-skip-decoder growth sequences", 1)
	})
}

func lens(bs [][]byte) []int {
	out := make([]int, len(bs))
	for i := range bs {
		out[i] = len(bs[i])
	}
	return out
}

// c09AbandonReader uses a stream reader, keeps some of the slices it returned and drops the reader.
//
//go:noinline
func c09AbandonReader(r *rand.Rand, maxReq *int) []heldSlice {
	n := 30000 + r.Intn(60000)
	data := make([]byte, n)
	doubles.FillContent(data, r.Intn(1000))
	rd := bufiox.NewDefaultReader(&doubles.Source{Data: data, Len: n, ErrAt: n, Err: io.EOF, Sched: r.Intn(doubles.NSched), R: r, Budget: 10*n + 100000})
	var held []heldSlice
	pos := 0
	for k := 0; k < 2+r.Intn(5); k++ {
		ask := []int{1, 50, 4000, 4097, 9000, 20000}[r.Intn(6)]
		if pos+ask > n {
			break
		}
		var b []byte
		var err error
		if r.Intn(3) == 0 {
			b, err = rd.Peek(ask)
		} else {
			b, err = rd.Next(ask)
			pos += ask
		}
		if err != nil {
			break
		}
		if ask > *maxReq {
			*maxReq = ask
		}
		held = append(held, heldSlice{b: b, snap: append([]byte(nil), b...), op: k})
		if r.Intn(4) == 0 && len(held) == 1 {
			rd.Release(nil) // an earlier Release ends earlier slices, not the ones handed out after it
			held = held[:0]
		}
	}
	return held
}

// c09AbandonWriter asks a stream writer for regions, fills them and drops the writer before any Flush.
//
//go:noinline
func c09AbandonWriter(r *rand.Rand, maxReq *int) (regions, snaps [][]byte) {
	w := bufiox.NewDefaultWriter(&doubles.Sink{})
	for k := 0; k < 2+r.Intn(5); k++ {
		ask := []int{1, 50, 4000, 4097, 9000, 20000}[r.Intn(6)]
		b, err := w.Malloc(ask)
		if err != nil {
			break
		}
		for i := range b {
			b[i] = regionByte(k+1, i)
		}
		if ask > *maxReq {
			*maxReq = ask
		}
		regions = append(regions, b)
		snaps = append(snaps, append([]byte(nil), b...))
	}
	return
}
