package mon

import (
	"bufio"
	"bytes"
	"errors"
	"fmt"
	"io"
	"math/rand"
	"strings"
	"sync/atomic"
	"testing/iotest"
	"time"

	"github.com/cloudwego/gopkg/bufiox"

	"verifharness/doubles"
	"verifharness/drv"
	"verifharness/san"
)

// Reader operation kinds.
const (
	opNext = iota
	opPeek
	opSkip
	opReadBinary
	opRelease
)

var rOpNames = []string{"Next", "Peek", "Skip", "ReadBinary", "Release"}

type rOp struct {
	Kind int
	N    int
}

func (o rOp) String() string {
	if o.Kind == opRelease {
		return "Release"
	}
	return fmt.Sprintf("%s(%d)", rOpNames[o.Kind], o.N)
}

var rSizes = []int{0, 1, 7, 4095, 4096, 4097, 8193, 20000}

// srcSpec describes the hostile source of one history.
type srcSpec struct {
	Len      int
	ErrAt    int // bytes at positions >= ErrAt are never delivered; the error comes instead
	ErrKind  int // 0 io.EOF, 1 io.ErrUnexpectedEOF, 2 custom, 3 an error wrapping io.EOF, 4 timeout
	WithData bool
	Sched    int
	ZeroMax  int
	ZeroRun  int
	Endless0 bool
	// ZerosBeforeErr empty reads (< 100) between the last data and the error
	ZerosBeforeErr int
}

var errWrappedEOF = fmt.Errorf("conn 10.0.0.7:8888 closed by peer: %w", io.EOF)

func (s srcSpec) err() error {
	switch s.ErrKind {
	case 1:
		return io.ErrUnexpectedEOF
	case 2:
		return doubles.ErrCustom
	case 3:
		return errWrappedEOF // the source's own error value, which happens to wrap io.EOF
	case 4:
		return doubles.ErrTimeout
	}
	return io.EOF
}

func (s srcSpec) desc() M {
	return M{"len": s.Len, "err_at": s.ErrAt, "err": s.err().Error(), "err_with_data": s.WithData, "schedule": doubles.SchedNames[s.Sched], "zero_reads_max": s.ZeroMax, "zero_run_after_each_chunk": s.ZeroRun, "endless_zero_reads": s.Endless0, "zero_reads_before_the_error": s.ZerosBeforeErr}
}

// readerOpts selects what the runner observes beyond the cursor model.
type readerOpts struct {
	bytesReader bool // NewBytesReader over a caller slice instead of NewDefaultReader(Source)
	capClass    int  // bytes reader: 0 cap==len, 1 pow2 cap, 2 pow2+1 cap, 3 pow2-1
	retain      bool // C09: keep every returned slice and re-check until Release
	cotenant    bool // C09 configuration B: real-pool co-tenant between operations
	std         int  // > 0: NewDefaultReader over a standard-library reader (see stdSource) holding the whole stream
}

const nStdSources = 11

var stdSourceNames = []string{"", "bytes.Reader", "strings.Reader", "bytes.Buffer", "bufio.Reader(16)", "iotest.OneByteReader", "iotest.DataErrReader", "iotest.HalfReader",
	"io.LimitReader", "io.MultiReader", "bytes.Reader behind a plain io.Reader", "io.SectionReader"}

// stdSource wraps data in a standard-library reader: readers with extra methods (Len, WriteTo, ReadByte...),
// which a buffered reader might be tempted to use, and the iotest fragmenters.
func stdSource(kind int, data []byte) io.Reader {
	switch kind {
	case 1:
		return bytes.NewReader(data)
	case 2:
		return strings.NewReader(string(data))
	case 3:
		return bytes.NewBuffer(append([]byte(nil), data...))
	case 4:
		return bufio.NewReaderSize(bytes.NewReader(data), 16)
	case 5:
		return iotest.OneByteReader(bytes.NewReader(data))
	case 6:
		return iotest.DataErrReader(bytes.NewReader(data))
	case 7:
		return iotest.HalfReader(bytes.NewReader(data))
	case 8:
		return io.LimitReader(bytes.NewReader(append(append([]byte(nil), data...), 0xEE, 0xEE, 0xEE)), int64(len(data)))
	case 9:
		h := len(data) / 2
		return io.MultiReader(bytes.NewReader(data[:h]), strings.NewReader(""), bytes.NewReader(data[h:]))
	case 10:
		return struct{ io.Reader }{bytes.NewReader(data)}
	}
	return io.NewSectionReader(bytes.NewReader(append([]byte{1, 2, 3}, data...)), 3, int64(len(data)))
}

type heldSlice struct {
	b    []byte
	snap []byte
	op   int
}

// coTenant takes buffers from the real pool between operations, checks that none of them
// overlaps memory somebody else still owns, scribbles them and returns or keeps them.
type coTenant struct {
	r       *rand.Rand
	kept    [][]byte
	classes []int
	step    int
}

func (ct *coTenant) run(cs *drv.Case, held []heldSlice, callers []*san.Canary, extra [][]byte, maxReq int, stage string) bool {
	ct.step++
	var classes []int
	for c := 4096; c <= 2*maxReq+8192 && c <= 1<<21; c *= 2 {
		classes = append(classes, c)
	}
	for _, cn := range callers {
		if cn != nil {
			c := 1
			for c < cap(cn.Buf()) {
				c *= 2
			}
			classes = append(classes, c)
		}
	}
	if ct.step%16 == 0 {
		for c := 1; c <= 1<<21; c *= 2 {
			classes = append(classes, c)
		}
	}
	ok := true
	for _, c := range classes {
		for k := 0; k < 2; k++ {
			b := san.PoolMalloc(c)
			full := b[:cap(b)]
			for i := range held {
				if san.Overlaps(full, held[i].b) && len(held[i].b) > 0 {
					cs.Fail("pool-handed-out-live-reader-memory", M{"stage": stage}, M{"message": fmt.Sprintf("the shared pool handed the co-tenant a %d-byte buffer overlapping a slice returned by op #%d that has not been released", c, held[i].op)})
					ok = false
				}
			}
			for _, e := range extra {
				if san.Overlaps(full, e) {
					cs.Fail("pool-handed-out-live-writer-memory", M{"stage": stage}, M{"message": fmt.Sprintf("the shared pool handed the co-tenant a %d-byte buffer overlapping a live region/payload", c)})
					ok = false
				}
			}
			for _, cn := range callers {
				if cn == nil {
					continue
				}
				if san.Overlaps(full, cn.Buf()) {
					cs.Fail("pool-handed-out-caller-memory", M{"stage": stage}, M{"message": fmt.Sprintf("the shared pool handed the co-tenant a %d-byte buffer overlapping caller-owned memory", c)})
					ok = false
				}
			}
			if !ok {
				return false // do not scribble: keep the witness state
			}
			// scribble
			if len(full) <= 65536 {
				for i := range full {
					full[i] = 0xEE
				}
			} else {
				for i := 0; i < 4096; i++ {
					full[i] = 0xEE
					full[len(full)-1-i] = 0xEE
				}
				for i := 0; i < len(full); i += 4096 {
					full[i] = 0xEE
				}
			}
			cs.C.Obs("co-tenant buffers scribbled", 1)
			if ct.r.Intn(3) == 0 && len(ct.kept) < 64 {
				ct.kept = append(ct.kept, b)
			} else {
				san.PoolFree(b)
			}
		}
	}
	return true
}

func (ct *coTenant) done() {
	for _, b := range ct.kept {
		san.PoolFree(b)
	}
	ct.kept = nil
}

// runReaderHistory executes ops against a real bufiox reader and checks every result
// against the cursor model. It returns flags used for the non-triviality rule.
func runReaderHistory(cs *drv.Case, ops []rOp, spec srcSpec, o readerOpts) (nontrivial bool) {
	// a history is a handful of in-memory calls (microseconds). A call of the library that has not returned
	// after historyBound is a call that does not return: the only wall-clock verdict of the framework,
	// five orders of magnitude above the cost of what it bounds.
	if historyGaveUp.Load() {
		return false // a call of this worker never returned (already reported): further histories would only wait again
	}
	returned, pnc := cs.C.Bounded(historyBound, "reader history "+opsString(ops), func() {
		nontrivial = runReaderHistoryInner(cs, ops, spec, o)
	})
	if pnc != nil {
		panic(pnc)
	}
	if !returned {
		historyGaveUp.Store(true)
		cs.Fail("operation-never-returned", M{"reader": "history"}, M{"ops": opsString(ops), "source": spec.desc(), "bytes_reader": o.bytesReader,
			"message": fmt.Sprintf("a reader operation of this history had not returned after %v", historyBound)})
	}
	return nontrivial
}

const historyBound = 120 * time.Second

var historyGaveUp atomic.Bool

func runReaderHistoryInner(cs *drv.Case, ops []rOp, spec srcSpec, o readerOpts) (nontrivial bool) {
	var rd bufiox.Reader
	var src *doubles.Source
	var caller *san.Canary
	avail := spec.ErrAt
	if avail > spec.Len {
		avail = spec.Len
	}
	srcErr := spec.err()
	if o.bytesReader {
		capa := spec.Len
		p2 := 1
		for p2 < spec.Len {
			p2 *= 2
		}
		switch o.capClass {
		case 4: // (almost) empty slice in front of a power-of-two sized scratch area
			capa = 4096
		case 1:
			capa = p2
		case 2:
			capa = p2 + 1
		case 3:
			if p2-1 >= spec.Len {
				capa = p2 - 1
			}
		}
		caller = san.NewCanary(spec.Len, capa, doubles.Content)
		rd = bufiox.NewBytesReader(caller.Buf())
		avail = spec.Len
		srcErr = io.EOF
	} else if o.std > 0 {
		data := make([]byte, spec.Len)
		doubles.FillContent(data, 0)
		rd = bufiox.NewDefaultReader(stdSource(o.std, data))
		avail = spec.Len
		srcErr = io.EOF
	} else {
		src = &doubles.Source{Len: spec.Len, ErrAt: spec.ErrAt, Err: srcErr, WithData: spec.WithData, Sched: spec.Sched, ZeroMax: spec.ZeroMax, ZeroRun: spec.ZeroRun,
			Endless0: spec.Endless0, ZerosBeforeErr: spec.ZerosBeforeErr, R: cs.R, Budget: 10*spec.Len + 100000 + spec.ZeroRun*(spec.Len+100), Trace: cs.Tracef}
		if srcErr != io.EOF && cs.R.Intn(3) == 0 {
			src.AfterErr = io.EOF // error once, plain EOF on later reads: the first error is the source's error
		}
		var rdr io.Reader = src
		if cs.R.Intn(6) == 0 {
			rdr = &doubles.LenReader{Reader: src, Staged: cs.R.Intn(8)} // a Len method that means something else
		}
		rd = bufiox.NewDefaultReader(rdr)
	}
	if san.PoolShim {
		san.PoolReset()
	}
	ct := &coTenant{r: cs.R}
	defer ct.done()

	c := 0       // absolute cursor
	relBase := 0 // cursor at last Release
	var held []heldSlice
	maxReq := 4096
	sawErr, sawSpan, sawTail, sawGrow := false, false, false, false

	fail := func(check string, i int, msg string, args ...interface{}) {
		cs.Fail(check, M{"op": rOpNames[ops[i].Kind]}, M{"op_index": i, "op": ops[i].String(), "cursor": c, "message": fmt.Sprintf(msg, args...)})
	}
	expect := func(pos, n int) []byte {
		b := make([]byte, n)
		doubles.FillContent(b, pos)
		return b
	}
	// enough(n): the model says n more bytes can be delivered
	enough := func(n int) bool { return c+n <= avail }
	checkErr := func(i int, err error) {
		sawErr = true
		cs.C.Obs("errors surfaced", 1)
		if spec.Endless0 && !o.bytesReader {
			return // any non-nil error is acceptable when the source never makes progress
		}
		if err != srcErr || !errors.Is(err, srcErr) {
			fail("reader-wrong-error", i, "got error %q, want the source's own error %q", errString(err), srcErr.Error())
		}
		if src != nil && !src.ErrDelivered {
			fail("reader-error-before-source-error", i, "the reader failed with %q although the source has not returned an error yet", errString(err))
		}
	}
	checkHeld := func(i int, when string) bool {
		for k := range held {
			if !bytes.Equal(held[k].b, held[k].snap) {
				cs.Fail("retained-slice-changed", M{"when": when}, M{"op_index": i, "op": ops[minInt(i, len(ops)-1)].String(), "message": fmt.Sprintf("slice returned by op #%d (%d bytes) changed %s, before Release", held[k].op, len(held[k].b), when)})
				return false
			}
			if san.PoolShim && san.PoolInFreed(held[k].b) {
				cs.Fail("retained-slice-in-recycled-memory", M{"when": when}, M{"op_index": i, "message": fmt.Sprintf("slice returned by op #%d lies in a buffer that was already recycled into the pool", held[k].op)})
				return false
			}
		}
		if caller != nil {
			if off, ok := caller.Check(); !ok {
				cs.Fail("caller-memory-modified", M{"who": "bytes-reader"}, M{"op_index": i, "message": fmt.Sprintf("caller-owned buffer (len %d cap %d) modified at offset %d %s", spec.Len, cap(caller.Buf()), off, when)})
				return false
			}
		}
		return true
	}

	// a second reader of the same goroutine, used between the operations of the one under test (a connection
	// handled next to another): its own stream and buffers, so nothing it does may show in this history
	var shadow *bufiox.DefaultReader
	var shadowPos int
	shadowData := []byte(nil)
	if !san.PoolShim && cs.R.Intn(4) == 0 {
		shadowData = bytes.Repeat([]byte{0x5A}, 20000)
		shadow = bufiox.NewDefaultReader(bytes.NewReader(shadowData))
		cs.C.Obs("histories with a second reader interleaved", 1)
	}
	shadowStep := func() {
		if shadow == nil {
			return
		}
		k := 1 + cs.R.Intn(6000)
		if shadowPos+k > len(shadowData) {
			shadow.Release(nil)
			shadow = bufiox.NewDefaultReader(bytes.NewReader(shadowData))
			shadowPos = 0
		}
		switch cs.R.Intn(3) {
		case 0:
			shadow.Peek(k)
		case 1:
			if b, err := shadow.Next(k); err == nil {
				shadowPos += len(b)
			}
		default:
			shadow.Release(nil)
		}
	}
	defer func() {
		if shadow != nil {
			shadow.Release(nil)
		}
	}()
	for i, op := range ops {
		shadowStep()
		calls0 := 0
		if src != nil {
			calls0 = src.Calls
		}
		if op.N > maxReq {
			maxReq = op.N
		}
		switch op.Kind {
		case opNext, opPeek:
			var b []byte
			var err error
			if op.Kind == opNext {
				b, err = rd.Next(op.N)
			} else {
				b, err = rd.Peek(op.N)
			}
			switch {
			case op.N < 0:
				if err == nil {
					fail("reader-negative-count-accepted", i, "negative count returned no error")
				}
			case err == nil:
				if len(b) != op.N {
					fail("reader-wrong-length", i, "returned %d bytes and nil error for a request of %d", len(b), op.N)
					return
				}
				if !enough(op.N) {
					fail("reader-invented-bytes", i, "succeeded although only %d bytes remain before the source's error", avail-c)
					return
				}
				if !bytes.Equal(b, expect(c, op.N)) {
					fail("reader-wrong-bytes", i, "returned bytes differ from stream[%d:%d] (first diff at +%d)", c, c+op.N, firstDiff(b, expect(c, op.N)))
					return
				}
				if o.retain && len(b) > 0 {
					held = append(held, heldSlice{b: b, snap: append([]byte(nil), b...), op: i})
				}
				if op.Kind == opNext {
					c += op.N
				}
			default:
				if enough(op.N) && !spec.Endless0 {
					fail("reader-spurious-failure", i, "failed with %q although %d >= %d bytes remain before the source's error", errString(err), avail-c, op.N)
					return
				}
				if enough(op.N) && spec.Endless0 && src != nil && src.Pos-c >= op.N {
					fail("reader-spurious-failure", i, "failed with %q although the source had already handed out the requested bytes", errString(err))
					return
				}
				if len(b) != 0 {
					fail("reader-data-with-error", i, "returned %d bytes together with an error", len(b))
				}
				checkErr(i, err)
			}
		case opSkip:
			err := rd.Skip(op.N)
			switch {
			case op.N < 0:
				if err == nil {
					fail("reader-negative-count-accepted", i, "negative count returned no error")
				}
			case err == nil:
				if !enough(op.N) {
					fail("reader-invented-bytes", i, "Skip succeeded although only %d bytes remain", avail-c)
					return
				}
				c += op.N
			default:
				if enough(op.N) && !spec.Endless0 {
					fail("reader-spurious-failure", i, "Skip failed with %q although %d bytes remain", errString(err), avail-c)
					return
				}
				checkErr(i, err)
			}
		case opReadBinary:
			n := op.N
			if n < 0 {
				n = 0
			}
			cn := san.NewCanary(n, n+cs.R.Intn(3), func(int) byte { return 0x5a })
			bs := cn.Buf()
			m, err := rd.ReadBinary(bs)
			if m < 0 || m > len(bs) {
				fail("readbinary-over-report", i, "reported %d bytes for a %d-byte destination", m, len(bs))
				return
			}
			if c+m > avail {
				fail("reader-invented-bytes", i, "ReadBinary reported %d bytes although only %d remain", m, avail-c)
				return
			}
			if !bytes.Equal(bs[:m], expect(c, m)) {
				fail("reader-wrong-bytes", i, "ReadBinary copied bytes that differ from stream[%d:%d]", c, c+m)
				return
			}
			// nothing outside bs[:m] may be touched
			cn.Expect(expect(c, m))
			if off, ok := cn.Check(); !ok {
				fail("readbinary-wrote-outside", i, "destination modified at offset %d outside the %d reported bytes", off, m)
				return
			}
			if m < len(bs) {
				if err == nil {
					fail("readbinary-short-without-error", i, "reported %d of %d bytes with a nil error", m, len(bs))
					return
				}
				if enough(len(bs)) && !spec.Endless0 {
					fail("reader-spurious-failure", i, "ReadBinary short (%d of %d) with %q although %d bytes remain", m, len(bs), errString(err), avail-c)
					return
				}
				checkErr(i, err)
			} else if err != nil {
				fail("readbinary-full-with-error", i, "reported all %d bytes together with error %q", m, errString(err))
			}
			c += m
		case opRelease:
			if !checkHeld(i, "just before Release") {
				return
			}
			if src != nil && src.Pos > c {
				sawTail = true
				cs.C.Obs("releases with unread buffered tail", 1)
			}
			var relArg error
			if cs.R.Intn(3) == 0 {
				relArg = io.ErrClosedPipe // Release's argument is informational: behaviour must not depend on it
			}
			if err := rd.Release(relArg); err != nil {
				fail("reader-release-error", i, "Release returned %v", err)
			}
			held = held[:0]
			relBase = c
			if san.PoolShim {
				if f := san.PoolFaults(); len(f) > 0 {
					cs.Fail("pool-discipline", M{"fault": firstWord(f[0])}, M{"op_index": i, "faults": f})
					return
				}
			}
		}
		if got := rd.ReadLen(); got != c-relBase {
			fail("readlen-mismatch", i, "ReadLen() = %d, want %d (consumed since last Release)", got, c-relBase)
			return
		}
		if src != nil {
			if src.Exhausted {
				fail("reader-non-termination", i, "the source was asked more than %d times", src.Budget)
				return
			}
			if src.Calls-calls0 >= 2 {
				sawSpan = true
			}
			if src.MaxAsk > 4096 {
				sawGrow = true
			}
		}
		if o.retain {
			if !checkHeld(i, "after a later operation") {
				return
			}
			if o.cotenant {
				if !ct.run(cs, held, []*san.Canary{caller}, nil, maxReq, "reader") {
					return
				}
				if !checkHeld(i, "after the pool co-tenant reused buffers") {
					return
				}
			}
		}
	}
	// drain: whatever the source has already handed out must still be deliverable
	last := len(ops) - 1
	if last < 0 {
		return false
	}
	rest := avail - c
	if spec.Endless0 && src != nil {
		rest = src.Pos - c
	}
	if rest >= 0 && rest <= 200000 {
		b, err := rd.Next(rest)
		if err != nil || len(b) != rest || !bytes.Equal(b, expect(c, rest)) {
			cs.Fail("reader-buffered-bytes-lost", nil, M{"message": fmt.Sprintf("after the history, Next(%d) for the remaining bytes gave len=%d err=%v (content ok: %v)", rest, len(b), err, err == nil && bytes.Equal(b, expect(c, minInt(rest, len(b)))))})
			return
		}
		c += rest
		if !spec.Endless0 || o.bytesReader {
			_, err = rd.Next(1)
			if err == nil {
				cs.Fail("reader-invented-bytes", M{"op": "final"}, M{"message": "Next(1) succeeded past the end of the stream"})
			} else if err != srcErr {
				cs.Fail("reader-wrong-error", M{"op": "final"}, M{"message": fmt.Sprintf("past the end: got %q, want the source's error %q", errString(err), srcErr.Error())})
			}
		}
	}
	if !checkHeld(last, "at the end of the history") {
		return
	}
	rd.Release(nil)
	if san.PoolShim {
		if f := san.PoolFaults(); len(f) > 0 {
			cs.Fail("pool-discipline", M{"fault": firstWord(f[0])}, M{"faults": f})
		}
		m, fr, _ := san.PoolStats()
		cs.C.Obs("pool mallocs (shim)", int64(m))
		cs.C.Obs("pool frees (shim)", int64(fr))
		if m > 1 {
			sawGrow = true
		}
	}
	if caller != nil {
		if off, ok := caller.Check(); !ok {
			cs.Fail("caller-memory-modified", M{"who": "bytes-reader"}, M{"message": fmt.Sprintf("caller-owned buffer modified at offset %d by the end of the history", off)})
		}
	}
	if src != nil {
		cs.C.Obs("source reads", int64(src.Calls))
		cs.C.Obs("zero reads served", int64(src.ZeroReads))
		if src.WithData && src.ErrDelivered {
			cs.C.Obs("errors delivered with data", 1)
		}
	}
	if sawGrow {
		cs.C.Obs("histories with growth", 1)
	}
	return sawErr || sawSpan || sawTail || sawGrow
}

func minInt(a, b int) int {
	if a < b {
		return a
	}
	return b
}

func firstDiff(a, b []byte) int {
	for i := 0; i < len(a) && i < len(b); i++ {
		if a[i] != b[i] {
			return i
		}
	}
	return minInt(len(a), len(b))
}

func firstWord(s string) string {
	for i := 0; i < len(s); i++ {
		if s[i] == ' ' || s[i] == ':' {
			return s[:i]
		}
	}
	return s
}

func opsString(ops []rOp) string {
	var b strings.Builder
	for i, o := range ops {
		if i > 0 {
			b.WriteByte(' ')
		}
		if i == 400 && len(ops) > 800 {
			// very long histories are built by a rule their stage states; the replay re-generates them
			fmt.Fprintf(&b, "... (%d operations in all) ...", len(ops))
			for _, o := range ops[len(ops)-20:] {
				b.WriteByte(' ')
				b.WriteString(o.String())
			}
			break
		}
		b.WriteString(o.String())
	}
	return b.String()
}

// randomReaderOps generates a random history.
func randomReaderOps(r *rand.Rand, n int, bigBias bool) []rOp {
	ops := make([]rOp, n)
	for i := range ops {
		k := r.Intn(20)
		switch {
		case k < 6:
			ops[i].Kind = opNext
		case k < 10:
			ops[i].Kind = opPeek
		case k < 13:
			ops[i].Kind = opSkip
		case k < 17:
			ops[i].Kind = opReadBinary
		default:
			ops[i].Kind = opRelease
			continue
		}
		switch x := r.Intn(12); {
		case x < 4:
			ops[i].N = r.Intn(64)
		case x < 7:
			ops[i].N = rSizes[r.Intn(len(rSizes))]
		case x < 9:
			ops[i].N = r.Intn(9000)
		case x == 9 && bigBias:
			ops[i].N = 20000 + r.Intn(60000)
			if r.Intn(12) == 0 {
				ops[i].N = []int{1 << 20, 1<<20 + 16, 1<<20 - 1, 3 << 19}[r.Intn(4)]
			}
		case x == 10:
			ops[i].N = 4090 + r.Intn(12)
		default:
			ops[i].N = r.Intn(300)
		}
		if r.Intn(60) == 0 {
			ops[i].N = -1 - r.Intn(3)
		}
	}
	return ops
}

func sumOps(ops []rOp) int {
	s := 0
	for _, o := range ops {
		if o.Kind != opPeek && o.Kind != opRelease && o.N > 0 {
			s += o.N
		}
	}
	return s
}

// randomSpec picks a source behaviour for a history consuming about `need` bytes.
func randomSpec(r *rand.Rand, need int) srcSpec {
	s := srcSpec{Sched: r.Intn(doubles.NSched), ErrKind: r.Intn(5), WithData: r.Intn(2) == 0}
	switch r.Intn(4) {
	case 0:
		s.Len = need + r.Intn(5000) // enough data
	case 1:
		s.Len = r.Intn(need + 1) // runs out somewhere
	case 2:
		s.Len = need
	default:
		s.Len = need + 1 + r.Intn(40)
	}
	s.ErrAt = s.Len
	if r.Intn(4) == 0 && s.Len > 0 {
		s.ErrAt = r.Intn(s.Len + 1)
	}
	if r.Intn(3) == 0 {
		s.ZeroMax = 1 + r.Intn(3)
	}
	return s
}
