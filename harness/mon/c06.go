package mon

import (
	"bytes"
	"context"
	"encoding/binary"
	"errors"
	"fmt"
	"github.com/bytedance/gopkg/cloud/metainfo"
	"io"
	"math/rand"
	"unsafe"

	"github.com/cloudwego/gopkg/bufiox"
	"github.com/cloudwego/gopkg/protocol/ttheader"

	"verifharness/doubles"
	"verifharness/drv"
	"verifharness/gen"
	"verifharness/ref"
)

func init() { drv.Register("C06", monC06) }

type tthParams struct {
	Flags uint16
	Seq   int32
	Proto byte
	Int   map[uint16]string
	Str   map[string]string
}

// infoSize computes the header-info size the layout prescribes for the parameters (independently of the encoder).
func (p tthParams) infoSize() int {
	n := 2
	nStr := len(p.Str)
	if tok, ok := p.Str[ref.TokenKey]; ok {
		n += 1 + 2 + len(tok)
		nStr--
	}
	if nStr > 0 {
		n += 3
		for k, v := range p.Str {
			if k == ref.TokenKey {
				continue
			}
			n += 4 + len(k) + len(v)
		}
	}
	if len(p.Int) > 0 {
		n += 3
		for _, v := range p.Int {
			n += 4 + len(v)
		}
	}
	return (n + 3) / 4 * 4
}

func (p tthParams) maxStr() int {
	m := 0
	for k, v := range p.Str {
		if len(k) > m {
			m = len(k)
		}
		if len(v) > m {
			m = len(v)
		}
	}
	for _, v := range p.Int {
		if len(v) > m {
			m = len(v)
		}
	}
	return m
}

func (p tthParams) desc() M {
	return M{"flags": p.Flags, "seq": p.Seq, "protocol": p.Proto, "n_int": len(p.Int), "n_str": len(p.Str), "info_size": p.infoSize(), "has_token": func() bool { _, ok := p.Str[ref.TokenKey]; return ok }()}
}

func (p tthParams) full() M {
	m := p.desc()
	im := map[string]string{}
	for k, v := range p.Int {
		if len(v) > 64 {
			v = fmt.Sprintf("%q...(%d bytes)", v[:32], len(v))
		}
		im[fmt.Sprint(k)] = v
	}
	sm := map[string]string{}
	for k, v := range p.Str {
		if len(v) > 64 {
			v = fmt.Sprintf("%q...(%d bytes)", v[:32], len(v))
		}
		if len(k) > 64 {
			k = fmt.Sprintf("%q...(%d bytes)", k[:32], len(k))
		}
		sm[k] = v
	}
	m["int_info"] = im
	m["str_info"] = sm
	return m
}

func mapsEqualStr(a, b map[string]string) bool {
	if len(a) != len(b) {
		return false
	}
	for k, v := range a {
		if w, ok := b[k]; !ok || w != v {
			return false
		}
	}
	return true
}

func mapsEqualInt(a, b map[uint16]string) bool {
	if len(a) != len(b) {
		return false
	}
	for k, v := range a {
		if w, ok := b[k]; !ok || w != v {
			return false
		}
	}
	return true
}

func genTTHParams(r *rand.Rand) tthParams {
	p := tthParams{Seq: gen.I32(r)}
	switch r.Intn(4) {
	case 0:
		p.Flags = []uint16{0, 1, 2, 3, 8, 0x10, 0xffff, 0x8000, 0x00ff}[r.Intn(9)]
	default:
		p.Flags = uint16(r.Intn(65536))
	}
	if r.Intn(5) == 0 {
		p.Proto = byte(r.Intn(256))
	} else {
		p.Proto = []byte{0, 3, 4, 0x10, 0x11}[r.Intn(5)]
	}
	str := func() string {
		switch r.Intn(16) {
		case 14, 15: // the keys the framework itself uses (written out here, not taken from the library) and near misses
			k := []string{"isn", "rip", "tc", "ti", "pcs", "pce", "pss", "prs", "pre", "crrst", "K_ProcessAtTime", "K_", "pr", "prS", "pree", "is", "isn "}
			return k[r.Intn(len(k))]
		case 12: // keys that resemble the ACL-token key
			return []string{"rpc_transit_gdpr-token", "RPC_TRANSIT_GDPR-TOKEN", "RPC_TRANSIT_gdpr-toke", "RPC_TRANSIT_gdpr-token2", "Rpc_Transit_Gdpr-Token", "gdpr-token",
				"RPC_PERSIST_gdpr-token", "RPC_BACKWARD_gdpr-token", "RPC_TRANSIT_", "RPC_PERSIST_", "RPC_TRANSIT_gdpr-token\x00", " RPC_TRANSIT_gdpr-token"}[r.Intn(12)]
		case 13:
			return string(gen.Bytes(r, 255+r.Intn(3)))
		case 0:
			return ""
		case 1:
			return string(gen.Bytes(r, 1+r.Intn(3)))
		case 2:
			return string(gen.Bytes(r, 200+r.Intn(800)))
		}
		return string(gen.Bytes(r, r.Intn(24)))
	}
	count := func() int {
		switch r.Intn(10) {
		case 0, 1:
			return 0
		case 2, 3:
			return 1
		case 4:
			return 20 + r.Intn(180)
		}
		return 1 + r.Intn(6)
	}
	if n := count(); n > 0 || r.Intn(3) == 0 {
		p.Int = map[uint16]string{}
		for i := 0; i < n; i++ {
			k := uint16(r.Intn(40))
			if r.Intn(4) == 0 {
				k = uint16(r.Intn(65536))
			}
			p.Int[k] = str()
		}
	}
	if n := count(); n > 0 || r.Intn(3) == 0 {
		p.Str = map[string]string{}
		for i := 0; i < n; i++ {
			p.Str[str()] = str()
		}
	}
	if r.Intn(4) == 0 {
		if p.Str == nil {
			p.Str = map[string]string{}
		}
		p.Str[ref.TokenKey] = str()
	}
	return p
}

// c06Check runs one parameter set through both encoders and all decoders.
// c06ForcePre makes c06Check put that many unflushed bytes (earlier frames of a pipeline) in front of the frame.
var c06ForcePre int

func c06Check(cs *drv.Case, p tthParams, payloadLen int, sched int) {
	// the frame is a function of the parameters: whatever the context argument carries (values, metainfo
	// entries that resemble header keys, a deadline, a cancelled context) must not show in it
	ctx := c06Context(cs.R)
	ep := ttheader.EncodeParam{Flags: ttheader.HeaderFlags(p.Flags), SeqID: p.Seq, ProtocolID: ttheader.ProtocolID(p.Proto), IntInfo: p.Int, StrInfo: p.Str}
	fail := func(check string, msg string, args ...interface{}) {
		cs.Fail(check, nil, M{"params": p.full(), "payload_len": payloadLen, "message": fmt.Sprintf(msg, args...)})
	}
	want := p.infoSize()
	mustFail := want > ref.TTHMaxHeaderSize

	buf, err := ttheader.EncodeToBytes(ctx, ep)
	// stream-backed encoder
	sink := &doubles.Sink{}
	dw := bufiox.NewDefaultWriter(sink)
	pre := cs.R.Intn(3) * 7
	if c06ForcePre > 0 {
		pre = c06ForcePre
	}
	if pre > 0 {
		b, _ := dw.Malloc(pre)
		for i := range b {
			b[i] = 0xAB
		}
	}
	w0 := dw.WrittenLen()
	totalField, err2 := ttheader.Encode(ctx, ep, dw)
	w1 := dw.WrittenLen()
	if (err == nil) != (err2 == nil) {
		fail("encode-paths-disagree", "EncodeToBytes err=%v but Encode err=%v", err, err2)
		return
	}
	if err != nil {
		cs.C.Obs("encode errors", 1)
		if !mustFail {
			cs.C.Obs("encode errors below the size limit (not judged)", 1)
		}
		return
	}
	if mustFail {
		fail("encode-oversize-accepted", "header info of %d bytes (> 65536) was encoded without error", want)
		return
	}
	cs.C.Obs("frames encoded", 1)
	// (a) layout
	defects, obs, _ := ref.TTHCheckLayout(buf, p.Flags, p.Seq, p.Proto, p.Int, p.Str)
	for _, o := range obs {
		cs.C.DontCare("layout-" + o)
	}
	if len(defects) > 0 {
		cs.Fail("frame-layout", M{"defect": firstWord(defects[0])}, M{"params": p.full(), "defects": defects, "frame_hex": hexOf(buf)})
		return
	}
	if len(buf) != 14+want {
		fail("frame-layout", "frame has %d bytes, the layout prescribes 14+%d", len(buf), want)
		return
	}
	if w1-w0 != len(buf) {
		fail("headerlen-vs-written", "stream encoder wrote %d bytes, bytes encoder %d", w1-w0, len(buf))
		return
	}
	// complete the frame: payload and total length
	payload := make([]byte, payloadLen)
	doubles.FillContent(payload, 1000)
	frame := append(append([]byte(nil), buf...), payload...)
	binary.BigEndian.PutUint32(frame, uint32(len(frame)-4))
	if len(totalField) != 4 {
		fail("total-len-field", "Encode returned a total-length field of %d bytes", len(totalField))
		return
	}
	binary.BigEndian.PutUint32(totalField, uint32(len(frame)-4))
	dw.WriteBinary(payload)
	if err := dw.Flush(); err != nil {
		fail("stream-flush", "%v", err)
		return
	}
	// the stream-produced frame may order map entries differently: judge it by layout and content, not byte equality
	got := sink.All()
	if len(got) != pre+len(frame) {
		fail("stream-frame-differs", "Encode+Writer produced %d bytes, EncodeToBytes+payload %d", len(got)-pre, len(frame))
		return
	}
	sframe := got[pre:]
	if d2, _, _ := ref.TTHCheckLayout(sframe[:len(buf)], p.Flags, p.Seq, p.Proto, p.Int, p.Str); len(d2) > 0 {
		cs.Fail("frame-layout", M{"defect": firstWord(d2[0]), "via": "stream"}, M{"params": p.full(), "defects": d2, "frame_hex": hexOf(sframe[:len(buf)])})
		return
	}
	if !bytes.Equal(sframe[len(buf):], payload) || binary.BigEndian.Uint32(sframe) != uint32(len(frame)-4) {
		fail("stream-frame-differs", "payload or total-length field of the stream-produced frame is wrong")
		return
	}
	if len(p.Int) <= 1 && len(p.Str) <= 1 && !bytes.Equal(sframe, frame) {
		fail("stream-frame-differs", "frames differ although no map has more than one entry (first diff at %d)", firstDiff(sframe, frame))
		return
	}
	// the same through a foreign bufiox.Writer that keeps WriteBinary payloads by reference and reads nothing before Flush
	if payloadLen <= 1<<16 {
		zw := &doubles.ZCWriter{}
		ztot, zerr := ttheader.Encode(ctx, ep, zw)
		if zerr != nil || len(ztot) != 4 {
			fail("encode-paths-disagree", "Encode into a zero-copy writer: err=%v, total-length field of %d bytes", zerr, len(ztot))
			return
		}
		if zw.WrittenLen() != len(buf) {
			fail("headerlen-vs-written", "encoder wrote %d bytes into a zero-copy writer, bytes encoder %d", zw.WrittenLen(), len(buf))
			return
		}
		binary.BigEndian.PutUint32(ztot, uint32(len(frame)-4))
		zw.WriteBinary(payload)
		zw.Flush()
		zf := zw.Out
		if len(zf) != len(frame) {
			fail("stream-frame-differs", "a zero-copy writer received %d bytes, EncodeToBytes+payload %d", len(zf), len(frame))
			return
		}
		if d3, _, _ := ref.TTHCheckLayout(zf[:len(buf)], p.Flags, p.Seq, p.Proto, p.Int, p.Str); len(d3) > 0 {
			cs.Fail("frame-layout", M{"defect": firstWord(d3[0]), "via": "zero-copy writer"}, M{"params": p.full(), "defects": d3, "frame_hex": hexOf(zf[:len(buf)])})
			return
		}
		if !bytes.Equal(zf[len(buf):], payload) || binary.BigEndian.Uint32(zf) != uint32(len(frame)-4) {
			fail("stream-frame-differs", "payload or total-length field of the frame a zero-copy writer received is wrong")
			return
		}
		cs.C.Obs("frames encoded into a zero-copy writer", 1)
	}
	if !ttheader.IsTTHeader(frame) {
		fail("is-ttheader", "IsTTHeader false on a produced frame")
	}
	if ttheader.IsStreaming(frame) != (p.Flags&2 != 0) {
		fail("is-streaming", "IsStreaming=%v for flags %#x", ttheader.IsStreaming(frame), p.Flags)
	}
	// (b) oracle decode
	supported := ref.SupportedProtocols[p.Proto]
	od, reason := ref.TTHDecode(frame)
	if supported {
		if reason != "" {
			fail("oracle-rejects-frame", "independent decoder rejects the produced frame: %s", reason)
			return
		}
		if od.Flags != p.Flags || od.SeqID != p.Seq || od.ProtocolID != p.Proto || !mapsEqualInt(od.IntInfo, p.Int) || !mapsEqualStr(od.StrInfo, p.Str) {
			fail("oracle-roundtrip", "independent decoder reads different parameters")
			return
		}
	}
	// (c) library decode, bytes- and stream-backed
	dp, derr := ttheader.DecodeFromBytes(ctx, frame)
	src := &doubles.Source{Data: frame, Len: len(frame), ErrAt: len(frame), Err: io.EOF, Sched: sched, R: cs.R, ZeroMax: 2, WithData: cs.R.Intn(2) == 0, Budget: 10*len(frame) + 100000}
	dr := bufiox.NewDefaultReader(src)
	dp2, derr2 := ttheader.Decode(ctx, dr)
	consumed := dr.ReadLen()
	if !supported {
		if derr == nil || derr2 == nil {
			fail("decode-accepts-unsupported-protocol", "protocol id %#x decoded without error", p.Proto)
		}
		dr.Release(nil)
		cs.C.Obs("unsupported-protocol frames", 1)
		return
	}
	if derr != nil || derr2 != nil {
		fail("roundtrip-decode-error", "Decode of a produced frame failed: bytes=%v stream=%v", derr, derr2)
		dr.Release(nil)
		return
	}
	for k, d := range []ttheader.DecodeParam{dp, dp2} {
		which := []string{"DecodeFromBytes", "Decode/DefaultReader"}[k]
		if uint16(d.Flags) != p.Flags || d.SeqID != p.Seq || byte(d.ProtocolID) != p.Proto || !mapsEqualInt(d.IntInfo, p.Int) || !mapsEqualStr(d.StrInfo, p.Str) {
			fail("roundtrip-params", "%s returns different parameters", which)
			dr.Release(nil)
			return
		}
		if d.HeaderLen != len(buf) {
			fail("headerlen-vs-written", "%s: HeaderLen %d, encoder wrote %d bytes", which, d.HeaderLen, len(buf))
		}
		if d.PayloadLen != payloadLen {
			fail("payloadlen", "%s: PayloadLen %d, payload has %d bytes (total field %d)", which, d.PayloadLen, payloadLen, len(frame)-4)
		}
	}
	if consumed != len(buf) {
		fail("headerlen-vs-consumed", "decoder consumed %d bytes, header has %d", consumed, len(buf))
	}
	// the payload is what follows
	if pl, err := dr.Next(payloadLen); err != nil || !bytes.Equal(pl, payload) {
		fail("payload-delimiting", "bytes after the header are not the payload (err=%v)", err)
	}
	dr.Release(nil)
	// two frames back-to-back on one reader without a Release in between: the second decode must
	// report lengths of the second frame, whatever the reader has consumed before
	{
		two := append(append([]byte(nil), sink.All()[pre:]...), sink.All()[pre:]...)
		rd2 := bufiox.NewDefaultReader(&doubles.Source{Data: two, Len: len(two), ErrAt: len(two), Err: io.EOF, Sched: sched, R: cs.R, Budget: 10*len(two) + 100000})
		ok2 := true
		for k := 0; k < 2 && ok2; k++ {
			before := rd2.ReadLen()
			d2, e2 := ttheader.Decode(ctx, rd2)
			if e2 != nil || d2.HeaderLen != len(buf) || d2.PayloadLen != payloadLen || rd2.ReadLen()-before != len(buf) {
				fail("second-frame-lengths", "frame #%d on one unreleased reader: err=%v HeaderLen=%d PayloadLen=%d consumed=%d, want %d / %d / %d", k+1, e2, d2.HeaderLen, d2.PayloadLen, rd2.ReadLen()-before, len(buf), payloadLen, len(buf))
				ok2 = false
				break
			}
			rd2.Skip(payloadLen)
		}
		rd2.Release(nil)
		if !ok2 {
			return
		}
	}
	// the decoded parameters are values: they must not change when the reader has been released,
	// its pool buffers are reused by somebody else, and the caller recycles the input slice
	for k := range frame {
		frame[k] = 0xFF
	}
	ct := &coTenant{r: cs.R}
	ct.run(cs, nil, nil, nil, len(frame)+4096, "c06")
	ct.done()
	for k, d := range []ttheader.DecodeParam{dp, dp2} {
		if !mapsEqualInt(d.IntInfo, p.Int) || !mapsEqualStr(d.StrInfo, p.Str) {
			fail("decoded-params-changed", "%s: the decoded maps changed after the reader was released / the input buffer was reused", []string{"DecodeFromBytes", "Decode/DefaultReader"}[k])
			return
		}
	}
	cs.C.Obs("frames round-tripped", 1)
	if want%4 == 0 && p.infoSizeUnpadded()%4 != 0 {
		cs.C.Obs("frames with padding", 1)
	}
}

func (p tthParams) infoSizeUnpadded() int {
	q := p
	n := q.infoSize()
	// recompute without padding
	m := 2
	nStr := len(p.Str)
	if tok, ok := p.Str[ref.TokenKey]; ok {
		m += 3 + len(tok)
		nStr--
	}
	if nStr > 0 {
		m += 3
		for k, v := range p.Str {
			if k != ref.TokenKey {
				m += 4 + len(k) + len(v)
			}
		}
	}
	if len(p.Int) > 0 {
		m += 3
		for _, v := range p.Int {
			m += 4 + len(v)
		}
	}
	_ = n
	return m
}

// countingWriter is a bufiox.Writer that does not keep what it is given: small regions come from a
// scratch ring, WriteBinary only counts. It lets the encoder run over parameters of any size.
type countingWriter struct {
	scratch [1 << 16]byte
	n       int
	head    []byte // the first 64 bytes (meta block), kept
}

func (w *countingWriter) Malloc(n int) ([]byte, error) {
	var b []byte
	if w.n < 64 && n <= 64-w.n {
		if w.head == nil {
			w.head = make([]byte, 64)
		}
		b = w.head[w.n : w.n+n]
	} else if n <= len(w.scratch) {
		b = w.scratch[:n]
	} else {
		b = make([]byte, n)
	}
	w.n += n
	return b, nil
}
func (w *countingWriter) WriteBinary(bs []byte) (int, error) { w.n += len(bs); return len(bs), nil }
func (w *countingWriter) WrittenLen() int                    { return w.n }
func (w *countingWriter) Flush() error                       { return nil }

// refusingWriter accepts everything except its failAt-th call (Malloc or WriteBinary), which returns an error.
type refusingWriter struct {
	failAt     int
	calls      int
	n          int
	after      int
	failedKind string
}

var errRefused = errors.New("writer refused")

func (w *refusingWriter) Malloc(n int) ([]byte, error) {
	k := w.calls
	w.calls++
	if k == w.failAt {
		w.failedKind = "Malloc"
		return nil, errRefused
	}
	w.n += n
	return make([]byte, n), nil
}

func (w *refusingWriter) WriteBinary(bs []byte) (int, error) {
	k := w.calls
	w.calls++
	if k == w.failAt {
		w.failedKind = "WriteBinary"
		return 0, errRefused
	}
	w.n += len(bs)
	return len(bs), nil
}
func (w *refusingWriter) WrittenLen() int { return w.n }
func (w *refusingWriter) Flush() error    { return nil }

func monC06(c *drv.Ctx) {
	if !c.Slow() && c.Flavour == "plain" {
		// parameters whose header info exceeds 2^32 bytes (the limit check must not be fooled by the low 32 bits)
		c.Stage("over-4GiB-parameter", 3, true, func(cs *drv.Case) {
			huge := make([]byte, 1<<32+3+int(cs.Idx)) // untouched zero pages
			hs := unsafe.String(&huge[0], len(huge))
			p := ttheader.EncodeParam{SeqID: 7}
			switch cs.Idx {
			case 0:
				p.StrInfo = map[string]string{ref.TokenKey: hs}
			case 1:
				p.StrInfo = map[string]string{"k": hs}
			default:
				p.IntInfo = map[uint16]string{1: hs}
			}
			w := &countingWriter{}
			_, err := ttheader.Encode(context.Background(), p, w)
			cs.Desc = M{"parameter_bytes": len(hs), "shape": cs.Idx}
			if err == nil {
				cs.Fail("encode-oversize-accepted", M{"size": ">4GiB"}, M{"written": w.n, "size_field": fmt.Sprintf("%x", w.head[12:14]), "message": "a header with more than 2^32 info bytes was encoded without error"})
			}
			cs.Count(true, "4gib", cs.Idx)
			cs.C.Obs("parameters beyond 4 GiB", 1)
		})
	}
	// (0) self-check of the constant the oracle hard-codes
	c.Stage("token-key-constant", 1, true, func(cs *drv.Case) {
		if ttheader.GDPRToken != ref.TokenKey {
			cs.Fail("harness-self-check", M{"what": "token key"}, M{"lib": ttheader.GDPRToken, "ref": ref.TokenKey})
		}
	})
	// (1) random parameter sets
	c.Stage("params", c.Pick(150000, 2000000), false, func(cs *drv.Case) {
		p := genTTHParams(cs.R)
		pl := []int{0, 1, 5, 100, 4096, 70000}[cs.R.Intn(6)]
		if cs.R.Intn(3) > 0 {
			pl = cs.R.Intn(300)
		}
		cs.Desc = p.desc()
		c06Check(cs, p, pl, cs.R.Intn(doubles.NSched))
		sz := p.infoSize()
		cs.Count(len(p.Int)+len(p.Str) > 0 || sz > 65536-64, fmt.Sprint(p.Flags, p.Seq, p.Proto, p.Int, p.Str), pl)
		if cs.WantSample() && cs.Idx%401 == 3 {
			cs.Sample(p.full())
		}
	})
	// (1a) payloads far larger than any buffer the writer may want to keep: the total-length field that Encode
	// returned is filled in after the payload was written, and must still reach the sink with the frame
	bigPayloads := []int{1<<20 + 1, 3 << 20, 5<<20 + 3}
	c.Stage("large-payloads", int64(len(bigPayloads))*c.Pick(2, 8), true, func(cs *drv.Case) {
		p := genTTHParams(cs.R)
		pl := bigPayloads[cs.Idx%int64(len(bigPayloads))]
		cs.Desc = p.desc()
		if (cs.Idx/int64(len(bigPayloads)))%2 == 1 {
			// the frame is the last of a pipeline: about as much is already waiting in the writer, and the
			// frame's own payload is small
			c06ForcePre = pl - 1 - cs.R.Intn(40)
			pl = cs.R.Intn(300)
			defer func() { c06ForcePre = 0 }()
			cs.C.Obs("frames behind more than 1 MiB of unflushed bytes", 1)
		} else {
			cs.C.Obs("frames with a payload above 1 MiB", 1)
		}
		c06Check(cs, p, pl, cs.R.Intn(doubles.NSched))
		cs.Count(true, "big", pl, cs.Idx)
	})
	// (1b) a writer that refuses its k-th call, for every k: no complete frame can have been written, so
	// Encode must report an error (and not panic); the error it reports must not hide the writer's refusal as success
	c.Stage("refusing-writer", c.Pick(3000, 60000), false, func(cs *drv.Case) {
		p := genTTHParams(cs.R)
		if p.infoSize() > ref.TTHMaxHeaderSize {
			p.Str, p.Int = map[string]string{"k": "v"}, map[uint16]string{1: "a", 2: ""}
		}
		ep := ttheader.EncodeParam{Flags: ttheader.HeaderFlags(p.Flags), SeqID: p.Seq, ProtocolID: ttheader.ProtocolID(p.Proto), IntInfo: p.Int, StrInfo: p.Str}
		probe := &refusingWriter{failAt: -1}
		if _, err := ttheader.Encode(context.Background(), ep, probe); err != nil {
			cs.Fail("encode-error", nil, M{"params": p.full(), "message": "Encode failed on a writer that accepts everything: " + err.Error()})
			return
		}
		calls := probe.calls
		cs.Desc = M{"params": p.desc(), "writer_calls": calls}
		for k := 0; k < calls; k++ {
			w := &refusingWriter{failAt: k}
			_, err := ttheader.Encode(context.Background(), ep, w)
			if err == nil {
				cs.Fail("encode-succeeded-on-refusing-writer", M{"call_kind": w.failedKind}, M{"params": p.full(), "refused_call": k, "of": calls, "refused": w.failedKind,
					"message": "the writer refused one piece of the frame, Encode reported success"})
				break
			}
			if w.calls > k+1 && w.after == 0 {
				w.after = w.calls - k - 1
			}
			cs.C.Obs("refused writer calls", 1)
			cs.C.Obs("refused "+w.failedKind, 1)
		}
		cs.Count(calls > 3, "refuse", fmt.Sprint(p.Int, p.Str))
	})

	// (2) flags: all 65536 (thorough) / 4096 stride (quick); protocol ids: all 256
	nf := c.Pick(4096, 65536)
	c.Stage("all-flags", nf, c.Thorough(), func(cs *drv.Case) {
		f := uint16(cs.Idx * (65536 / nf))
		p := tthParams{Flags: f, Seq: int32(cs.Idx), Proto: 0, Int: map[uint16]string{1: "a"}}
		c06Check(cs, p, 3, doubles.SchedHuge)
		cs.Count(true, "flags", f)
	})
	c.Stage("all-protocol-ids", 256, true, func(cs *drv.Case) {
		p := tthParams{Flags: 2, Seq: 77, Proto: byte(cs.Idx), Str: map[string]string{"k": "v"}}
		c06Check(cs, p, 9, doubles.SchedSmall)
		cs.Count(true, "proto", cs.Idx)
	})
	// (3) every padding residue and sizes swept exactly around the 65536 limit
	c.Stage("size-limit-sweep", 33*3, true, func(cs *drv.Case) {
		delta := int(cs.Idx%33) - 16
		shape := cs.Idx / 33
		target := 65536 + delta // unpadded info size we aim at
		p := tthParams{Flags: 0, Seq: 1, Proto: 0}
		switch shape {
		case 0: // one long string value: 2 + 3 + (2+1) + (2+L) = target
			L := target - 10
			if L > 65535 {
				L = 65535
			}
			p.Str = map[string]string{"k": string(gen.Bytes(cs.R, L))}
			if rest := target - 10 - L; rest > 0 {
				p.Int = map[uint16]string{9: string(gen.Bytes(cs.R, maxInt(rest-7, 0)))}
			}
		case 1: // one long int value: 2 + 3 + 2 + 2 + L
			L := target - 9
			if L > 65535 {
				L = 65535
			}
			p.Int = map[uint16]string{3: string(gen.Bytes(cs.R, L))}
			if rest := target - 9 - L; rest > 0 {
				p.Str = map[string]string{"q": string(gen.Bytes(cs.R, maxInt(rest-8, 0)))}
			}
		default: // token + many small entries
			L := target - 2 - 3 - 3 - 40*7
			if L > 65535 {
				L = 65535
			}
			p.Str = map[string]string{ref.TokenKey: string(gen.Bytes(cs.R, L))}
			p.Int = map[uint16]string{}
			for i := 0; i < 40; i++ {
				p.Int[uint16(i)] = "xyz"
			}
		}
		cs.Desc = p.desc()
		c06Check(cs, p, 11, doubles.SchedRandom)
		cs.Count(true, "limit", delta, shape)
		cs.C.Obs("size-limit cases", 1)
		if p.infoSize() == 65536 {
			cs.C.Obs("frames with exactly 65536 info bytes", 1)
		}
	})
	// (4) oversize through a single >= 64 KiB key / value and through many entries
	c.Stage("oversize", 12, true, func(cs *drv.Case) {
		p := tthParams{Proto: 0}
		switch cs.Idx % 4 {
		case 0:
			p.Str = map[string]string{string(gen.Bytes(cs.R, 65536+int(cs.Idx))): "v"}
		case 1:
			p.Int = map[uint16]string{1: string(gen.Bytes(cs.R, 70000))}
		case 2:
			p.Str = map[string]string{ref.TokenKey: string(gen.Bytes(cs.R, 65536))}
		default:
			p.Str = map[string]string{}
			for i := 0; i < 9000; i++ {
				p.Str[fmt.Sprintf("key-%d", i)] = "value"
			}
		}
		cs.Desc = p.desc()
		c06Check(cs, p, 0, doubles.SchedHuge)
		cs.Count(true, "oversize", cs.Idx)
	})
	// (5) padding residues with tiny maps
	c.Stage("padding-residues", 64, true, func(cs *drv.Case) {
		k := int(cs.Idx % 16)
		v := int(cs.Idx / 16)
		p := tthParams{Flags: 1, Seq: -1, Proto: 4, Str: map[string]string{string(gen.Bytes(cs.R, k)): string(gen.Bytes(cs.R, v))}}
		if cs.Idx%3 == 0 {
			p.Int = map[uint16]string{uint16(k): string(gen.Bytes(cs.R, v))}
		}
		c06Check(cs, p, k, doubles.SchedOne)
		cs.Count(true, "pad", k, v)
	})
}

func maxInt(a, b int) int {
	if a > b {
		return a
	}
	return b
}

type c06CtxKey string

func c06Context(r *rand.Rand) context.Context {
	ctx := context.Background()
	switch r.Intn(5) {
	case 0:
		return ctx
	case 1:
		ctx = metainfo.WithValue(ctx, "gdpr-token", "from-context")
		ctx = metainfo.WithPersistentValue(ctx, ref.TokenKey, "persistent-from-context")
	case 2:
		ctx = metainfo.WithValue(ctx, ref.TokenKey, "ctx-token")
		ctx = metainfo.WithValue(ctx, "k", "ctx-v")
		ctx = context.WithValue(ctx, c06CtxKey("RPC_TRANSIT_gdpr-token"), "plain-value")
	case 3:
		c2, cancel := context.WithCancel(ctx)
		cancel()
		ctx = metainfo.WithPersistentValue(c2, "isn", "svc-from-context")
	default:
		ctx = context.WithValue(ctx, c06CtxKey("seq"), int32(99))
		ctx = metainfo.WithBackwardValues(ctx)
	}
	return ctx
}
