package mon

import (
	"encoding/hex"
	"encoding/json"
	"os"
	"runtime/debug"

	"verifharness/drv"
	"verifharness/ref"
)

// FuzzOne runs the monitor body of a property on one externally supplied input (Go native
// fuzzing, thorough tier) and returns a description of the first violation, or "".
func FuzzOne(prop string, b []byte, t byte) string {
	c := drv.NewCtx(prop, "thorough", 0, "fuzz", 0, 1, "")
	cs := &drv.Case{C: c, Stage: "native-fuzz", Idx: 0, R: drv.NewRand(int64(len(b))*131 + int64(t))}
	cs.Desc = M{"input_hex": hexOf(b), "type": t}
	// the fuzzing engine runs every input on a goroutine of its own, and fault recovery is a per-goroutine
	// setting: without it a guard-page fault would kill the fuzz worker instead of being reported
	defer debug.SetPanicOnFault(debug.SetPanicOnFault(true))
	func() {
		defer func() {
			if r := recover(); r != nil {
				cs.Fail("panic", M{"panic": "monitor"}, M{"panic": r})
			}
		}()
		switch prop {
		case "C03":
			c03Run(cs, b, []byte{t, ref.STRUCT, ref.MAP, ref.LIST}, 1<<12)
		case "C08":
			runAllSkippers(cs, b, t, 1<<20, true)
			c17Skip(cs, b, t)
		case "C10":
			c10Check(cs, b, len(b)%3 == 0)
		}
	}()
	res := c.Result()
	if res.NViol == 0 {
		return ""
	}
	j, _ := json.Marshal(res.Violations[0])
	return string(j)
}

// fuzzReplayStage re-executes a crasher found by native fuzzing (used by --replay).
func fuzzReplayStage(c *drv.Ctx) bool {
	h := os.Getenv("VERIF_FUZZ_HEX")
	if c.OnlyStage != "native-fuzz" {
		return false
	}
	b, _ := hex.DecodeString(h)
	t := byte(0)
	if s := os.Getenv("VERIF_FUZZ_TYPE"); s != "" {
		var v int
		for _, ch := range s {
			v = v*10 + int(ch-'0')
		}
		t = byte(v)
	}
	c.OnlyIndex = -1
	c.Stage("native-fuzz", 1, false, func(cs *drv.Case) {
		switch c.Prop {
		case "C03":
			c03Run(cs, b, []byte{t, ref.STRUCT, ref.MAP, ref.LIST}, 1<<12)
		case "C08":
			runAllSkippers(cs, b, t, 1<<20, true)
			c17Skip(cs, b, t)
		case "C10":
			c10Check(cs, b, len(b)%3 == 0)
		}
	})
	return true
}

// FuzzSeeds returns deterministic seed inputs for the native fuzz targets.
func FuzzSeeds(prop string, seed int64, n int) [][]byte {
	c := drv.NewCtx(prop, "thorough", seed, "fuzz", 0, 1, "")
	var out [][]byte
	for i := 0; i < n; i++ {
		cs := &drv.Case{C: c, Stage: "fuzz-seeds", Idx: int64(i), R: drv.NewRand(seed*7919 + int64(i))}
		switch prop {
		case "C10":
			out = append(out, frameOf(cs, validInfo(cs, []string{"tsi", "s", "i", "t", "sps", ""}[i%6]), i%5))
		default:
			e, _ := seedEncoding(cs)
			out = append(out, e)
		}
	}
	return out
}
