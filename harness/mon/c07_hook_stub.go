//go:build !verif

package mon

import "verifharness/drv"

// c07Hooks: without the build tag verif the library's accessors do not exist and the stage is not run.
const c07Hooks = false

func c07LongChain(cs *drv.Case) {}
