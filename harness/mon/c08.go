package mon

import (
	"bytes"
	"fmt"
	"io"
	"runtime"

	"github.com/cloudwego/gopkg/bufiox"
	"github.com/cloudwego/gopkg/protocol/thrift"

	"verifharness/doubles"
	"verifharness/drv"
	"verifharness/gen"
	"verifharness/ref"
)

func init() { drv.Register("C08", monC08) }

// judgeSkip compares one skipper outcome with the grammar oracle. It is shared by C08 and
// (for the panic / over-report clauses) C03.
func judgeSkip(cs *drv.Case, which int, b []byte, t byte, pr *ref.ParseResult, o skipOut, placement string) {
	c := cs.C
	name := skipperNames[which]
	base := func() M {
		return M{"skipper": name, "type": t, "input_hex": hexOf(b), "placement": placement, "observed": o.String(),
			"oracle": M{"ok": pr.OK, "n": pr.N, "causes": causeNames(pr.Causes), "max_nesting": pr.MaxNesting, "fail_off": pr.FailOff}}
	}
	if o.panic != nil {
		kind := "panic"
		if isFaultPanic(o.panic) {
			kind = "guard-page-fault"
		}
		cs.Fail("skip-"+kind, M{"skipper": name}, base())
		return
	}
	if o.secondCall != "" {
		d := base()
		d["message"] = o.secondCall
		cs.Fail("skip-second-call-after-rejection", M{"skipper": name}, d)
		return
	}
	if pr.TooDeep {
		c.DontCare("oracle-depth-cap")
		return
	}
	if pr.DontCare {
		c.DontCare("empty-container-unknown-elem-type")
		return
	}
	if pr.MaxNesting == 64 {
		c.DontCare("nesting-exactly-64")
		return
	}
	if pr.MaxNesting >= 65 {
		c.Obs("nesting>=65 cases", 1)
		if o.ok {
			cs.Fail("skip-accepted-nesting>=65", M{"skipper": name}, base())
		}
		return
	}
	switch {
	case pr.OK && !o.ok:
		cs.Fail("skip-rejected-wellformed", M{"skipper": name}, base())
	case pr.OK && o.n != pr.N:
		cs.Fail("skip-wrong-extent", M{"skipper": name}, base())
	case pr.OK && o.note != "":
		cs.Fail("skip-content-or-position", M{"skipper": name, "note": o.note}, base())
	case !pr.OK && o.ok:
		cs.Fail("skip-accepted-malformed", M{"skipper": name, "causes": causeNames(pr.Causes)}, base())
	}
	if pr.OK {
		c.Obs("oracle-accept judged", 1)
	} else {
		c.Obs("oracle-reject judged", 1)
	}
}

// runAllSkippers applies every skipper to (b, t).
func runAllSkippers(cs *drv.Case, b []byte, t byte, allocCap uint64, arenaPlaced bool) {
	pr := ref.Parse(b, t)
	win := pr.MaxAsk
	sched := cs.R.Intn(6)
	withData := cs.R.Intn(2) == 0
	for which := 0; which < nSkippers; which++ {
		if allocates(which) && win > allocCap {
			cs.C.Obs("alloc-capped skips", 1)
			continue
		}
		in := b
		pl := "heap"
		if arenaPlaced && !allocates(which) {
			in = place(b, 0)
			pl = "arena-end"
		}
		o := runSkipper(which, in, t, cs.R, sched, withData)
		judgeSkip(cs, which, b, t, &pr, o, pl)
		if arenaPlaced && !allocates(which) && (which == skBinary || which == skBytesDec) {
			in = place(b, 1)
			o = runSkipper(which, in, t, cs.R, sched, withData)
			judgeSkip(cs, which, b, t, &pr, o, "arena-start")
		}
	}
	nontrivial := !pr.OK || pr.MaxNesting >= 2
	cs.Count(nontrivial, t, b)
	if pr.OK {
		cs.C.ObsMax("max_nesting_accepted", int64(pr.MaxNesting))
	}
	cs.C.Obs("skipper calls", nSkippers)
}

func monC08(c *drv.Ctx) {
	if fuzzReplayStage(c) {
		return
	}
	// skippers that buffer what the input declares only get inputs whose largest request stays below the cap
	allocCap := uint64(1 << 20)
	if c.Thorough() {
		allocCap = 1 << 22
	}
	types := ref.KnownTypes
	allTypes := []byte{0, 1, 2, 3, 4, 5, 6, 7, 8, 9, 10, 11, 12, 13, 14, 15, 16, 17, 0x7f, 0x80, 0xff}

	// (1) bounded-exhaustive strings over the grammar alphabet
	maxLen := int(c.Pick(5, 6))
	if c.Slow() {
		maxLen = 4
	}
	for n := 0; n <= maxLen; n++ {
		n := n
		total := gen.Pow(int64(len(gen.GrammarAlphabet)), n)
		c.Stage("alphabet-len"+string(rune('0'+n)), total, true, func(cs *drv.Case) {
			b := gen.AlphabetString(gen.GrammarAlphabet, n, cs.Idx)
			for _, t := range []byte{ref.STRUCT, ref.MAP, ref.LIST, ref.STRING} {
				runAllSkippers(cs, b, t, allocCap, true)
			}
			if cs.Idx%97 == 0 {
				for _, t := range allTypes {
					runAllSkippers(cs, b, t, allocCap, true)
				}
			}
			if cs.WantSample() && n == maxLen && cs.Idx%1000 == 7 {
				cs.Sample(M{"type": "STRUCT/MAP/LIST/STRING", "input_hex": hexOf(b)})
			}
		})
	}

	// (2) mutated valid encodings
	c.Stage("mutants", c.Pick(300000, 6000000), false, func(cs *drv.Case) {
		r := cs.R
		if cs.Idx%512 == 0 {
			runtime.GC() // two cycles empty sync.Pool: later cases get fresh pooled decoders
			runtime.GC()
		}
		t := types[r.Intn(len(types))]
		o := gen.TreeOpts{MaxDepth: 1 + r.Intn(4), MaxElems: 4}
		v := gen.Tree(r, t, o, 0)
		enc := v.Encode(nil)
		t2 := types[r.Intn(len(types))]
		v2 := gen.Tree(r, t2, o, 0)
		other := v2.Encode(nil)
		m, kind := gen.Mutate(r, enc, other)
		cs.Desc = M{"type": t, "mutation": kind, "input_hex": hexOf(m)}
		runAllSkippers(cs, m, t, allocCap, true)
		// every 8th case: all truncation points of the valid encoding
		if cs.Idx%8 == 0 && len(enc) <= 200 {
			for cut := 0; cut < len(enc); cut++ {
				runAllSkippers(cs, enc[:cut], t, allocCap, true)
			}
			cs.C.Obs("full truncation sweeps", 1)
		}
		if cs.WantSample() && cs.Idx%500 == 3 {
			cs.Sample(cs.Desc)
		}
	})

	// (3) huge size fields in every size position of small containers
	hugeSizes := append([]uint32{0x7fffffff, 0x80000000, 0xffffffff, 0x7ffffff0, 0x10000000, 0x01000000, 1, 2}, gen.WrapSizes...)
	c.Stage("huge-sizes", int64(11*11*len(hugeSizes)), true, func(cs *drv.Case) {
		i := cs.Idx
		kt := types[i%11]
		vt := types[(i/11)%11]
		sz := hugeSizes[(i/121)%int64(len(hugeSizes))]
		var bs [][]byte
		var ts []byte
		mp := ref.EncMapBegin(nil, kt, vt, sz)
		ls := ref.EncListBegin(nil, vt, sz)
		st := ref.U32(nil, sz)
		tail := []byte{0, 0, 0, 1, 0, 0, 0, 0, 0, 0, 0, 0, 0, 0, 0, 0, 0, 0, 0, 0, 0, 0, 0, 0, 0, 0, 0, 0, 0, 0, 0, 0, 0, 0, 0, 0}
		bs = append(bs, append(mp, tail...), append(ls, tail...), append(st, tail...), mp, ls, st)
		ts = append(ts, ref.MAP, ref.LIST, ref.STRING, ref.MAP, ref.SET, ref.STRING)
		for k := range bs {
			cs.Desc = M{"type": ts[k], "input_hex": hexOf(bs[k])}
			runAllSkippers(cs, bs[k], ts[k], allocCap, true)
			// the same inside a struct field
			w := append(ref.EncFieldBegin(nil, ts[k], 1), bs[k]...)
			w = append(w, 0)
			runAllSkippers(cs, w, ref.STRUCT, allocCap, true)
		}
	})

	// (4) nesting depth 1..70 for each container kind and innermost shape
	c.Stage("nesting", 70*4*3, true, func(cs *drv.Case) {
		i := cs.Idx
		depth := int(i%70) + 1
		kind := []byte{ref.STRUCT, ref.MAP, ref.SET, ref.LIST}[(i/70)%4]
		inner := int(i / 280)
		b := gen.Nested(kind, depth, inner)
		pr := ref.Parse(b, kind)
		if !pr.OK || pr.MaxNesting != depth || pr.N != len(b) {
			cs.Fail("harness-self-check", M{"what": "nested generator/oracle disagree"}, M{"depth": depth, "kind": kind, "oracle": M{"ok": pr.OK, "n": pr.N, "nest": pr.MaxNesting}, "len": len(b)})
			return
		}
		cs.Desc = M{"kind": kind, "depth": depth, "inner": inner, "input_hex": hexOf(b)}
		runAllSkippers(cs, b, kind, allocCap, true)
		// with trailing bytes and truncated by one
		runAllSkippers(cs, append(append([]byte(nil), b...), 0xff, 0x0c), kind, allocCap, true)
		runAllSkippers(cs, b[:len(b)-1], kind, allocCap, true)
		// mixed kinds: alternate struct/list/map
		if inner == 0 {
			mixed := mixedNest(depth)
			pm := ref.Parse(mixed, ref.STRUCT)
			if pm.OK && pm.MaxNesting == depth {
				runAllSkippers(cs, mixed, ref.STRUCT, allocCap, true)
				cs.C.Obs("mixed-kind nestings", 1)
			}
		}
		if depth >= 60 && cs.WantSample() {
			cs.Sample(cs.Desc)
		}
	})

	// (4b) nesting entered through every position (struct field, list/set element, map key, map value and mixtures)
	c.Stage("nesting-paths", int64(len(gen.NestPaths))*70*2, true, func(cs *drv.Case) {
		i := cs.Idx
		depth := int(i%70) + 1
		path := gen.NestPaths[(i/70)%int64(len(gen.NestPaths))]
		empty := i/(70*int64(len(gen.NestPaths))) == 1
		b, top := gen.NestedPath(path, depth, empty)
		cs.Desc = M{"path": path, "depth": depth, "empty_inner": empty, "input_hex": hexOf(b)}
		runAllSkippers(cs, b, top, allocCap, true)
		runAllSkippers(cs, b[:len(b)-1], top, allocCap, true)
		cs.C.Obs("nesting-path cases", 1)
	})

	// (4b') nesting through an arbitrary sequence of positions with long runs of one kind (k structs, a list,
	// many more structs ...): the depth budget must be counted across kinds, whatever the order
	c.Stage("random-nesting-sequences", c.Pick(3000, 60000), false, func(cs *drv.Case) {
		r := cs.R
		depth := 40 + r.Intn(33) // 40..72
		path := make([]byte, 0, depth)
		for len(path) < depth {
			k := "slekv"[r.Intn(5)]
			if r.Intn(2) == 0 {
				k = 's' // struct chains are the common case
			}
			run := 1 + r.Intn(6)
			if r.Intn(4) == 0 {
				run = 1 + r.Intn(60)
			}
			for j := 0; j < run && len(path) < depth; j++ {
				path = append(path, k)
			}
		}
		b, top := gen.NestedPath(string(path), depth, r.Intn(2) == 0)
		cs.Desc = M{"path": string(path), "depth": depth, "input_hex": hexOf(b)}
		runAllSkippers(cs, b, top, allocCap, true)
		if r.Intn(2) == 0 {
			runAllSkippers(cs, b[:len(b)-1-r.Intn(minInt(len(b)-1, 30))], top, allocCap, true)
		}
		cs.C.Obs("random nesting sequences", 1)
	})

	// (4b') one decoder on a reader that its owner also reads directly between two values (field headers, a
	// frame's fixed part): every Next starts where the reader stands at that moment, whatever an earlier Next
	// looked at or left behind
	c.Stage("decoder-shares-reader", c.Pick(4000, 80000), false, func(cs *drv.Case) {
		r := cs.R
		type item struct {
			raw, enc []byte
			t        byte
			bad      bool // a malformed value of known length (a frame the peer garbled): rejected, then stepped over by the caller
		}
		var items []item
		var stream []byte
		n := 2 + r.Intn(6)
		for k := 0; k < n; k++ {
			if r.Intn(3) == 0 {
				raw := gen.Bytes(r, 1+r.Intn(12))
				switch r.Intn(8) {
				case 0, 1:
					raw = gen.Bytes(r, 64+r.Intn(200))
				case 2:
					raw = gen.Bytes(r, 2000+r.Intn(4000)) // a good part of the reader's first block is used up before the next value
				}
				items = append(items, item{raw: raw})
				stream = append(stream, raw...)
				continue
			}
			if r.Intn(6) == 0 {
				// well-formed up to its second element, whose size is negative
				bad := ref.EncString(ref.EncListBegin(nil, ref.STRING, 2), string(gen.Bytes(r, r.Intn(9))))
				bad = append(ref.U32(bad, 0xfffffff0-uint32(r.Intn(8))), gen.Bytes(r, 4)...)
				if r.Intn(2) == 0 {
					bad = append(ref.EncFieldBegin(ref.EncI32(ref.EncFieldBegin(nil, ref.I32, 1), 5), ref.LIST, 2), bad...)
					items = append(items, item{enc: bad, t: ref.STRUCT, bad: true})
				} else {
					items = append(items, item{enc: bad, t: ref.LIST, bad: true})
				}
				stream = append(stream, bad...)
				continue
			}
			t := ref.KnownTypes[r.Intn(len(ref.KnownTypes))]
			v := gen.Tree(r, t, gen.TreeOpts{MaxDepth: 3, MaxElems: 4, NoBigCounts: true}, 0)
			if r.Intn(8) == 0 {
				t = ref.STRING
				v = ref.Value{T: ref.STRING, S: gen.Bytes(r, 3000+r.Intn(7000))} // does not fit what is left of the block
			}
			enc := v.Encode(nil)
			items = append(items, item{enc: enc, t: t})
			stream = append(stream, enc...)
		}
		// the end of the stream: a value cut short (to be rejected), or bytes nobody asks for
		cutTail := r.Intn(2) == 0
		if cutTail {
			t := []byte{ref.STRING, ref.LIST, ref.MAP, ref.STRUCT, ref.SET}[r.Intn(5)]
			v := gen.Tree(r, t, gen.TreeOpts{MaxDepth: 2, MaxElems: 4, NoBigCounts: true}, 0)
			enc := v.Encode(nil)
			enc = enc[:r.Intn(len(enc))]
			items = append(items, item{enc: enc, t: t})
			stream = append(stream, enc...)
		} else {
			stream = append(stream, gen.Bytes(r, []int{0, 3, 63, 64, 65, 300}[r.Intn(6)])...)
		}
		kind := r.Intn(3)
		var rd bufiox.Reader
		switch kind {
		case 0:
			rd = bufiox.NewBytesReader(place(stream, 0))
		case 1:
			rd = bufiox.NewDefaultReader(&doubles.Source{Data: stream, Len: len(stream), ErrAt: len(stream), Err: io.EOF, Sched: r.Intn(doubles.NSched), R: r, WithData: r.Intn(2) == 0, Budget: 10*len(stream) + 100000})
		default:
			rd = &doubles.NBReader{B: place(stream, 0)}
		}
		d := thrift.NewSkipDecoder(rd)
		defer d.Release()
		cs.Desc = M{"reader": []string{"BytesReader", "DefaultReader", "foreign reader"}[kind], "items": len(items), "stream_hex": hexOf(stream), "last_value_cut_short": cutTail}
		pos := 0
		for k, it := range items {
			if it.raw != nil {
				var got []byte
				var err error
				switch r.Intn(4) {
				case 0:
					got, err = rd.Next(len(it.raw))
				case 1:
					got = make([]byte, len(it.raw))
					_, err = rd.ReadBinary(got)
				case 2:
					if got, err = rd.Peek(len(it.raw)); err == nil {
						got = append([]byte(nil), got...)
						err = rd.Skip(len(it.raw))
					}
				default:
					br := thrift.NewBufferReader(rd)
					for range it.raw {
						var b int8
						if b, err = br.ReadByte(); err != nil {
							break
						}
						got = append(got, byte(b))
					}
					br.Recycle()
				}
				if err != nil || !bytes.Equal(got, it.raw) {
					cs.Fail("shared-reader-direct-read", nil, M{"item": k, "stream_offset": pos, "message": fmt.Sprintf("a direct read of %d bytes between two decoder calls failed or returned other bytes (err=%v)", len(it.raw), err)})
					return
				}
				pos += len(it.raw)
				continue
			}
			pr := ref.Parse(stream[pos:], it.t)
			if pr.TooDeep || pr.DontCare || pr.MaxNesting >= 64 {
				cs.C.DontCare("shared-reader-boundary-zone")
				return
			}
			if kind == 1 && !it.bad && r.Intn(3) == 0 {
				// the stream codec's own skip on the same reader, judged by what it consumed
				br := thrift.NewBufferReader(rd)
				before := rd.ReadLen()
				err := br.Skip(thrift.TType(it.t))
				took := rd.ReadLen() - before
				br.Recycle()
				switch {
				case pr.OK && err != nil:
					cs.Fail("skip-rejected-wellformed", M{"skipper": "BufferReader.Skip sharing its reader"}, M{"item": k, "stream_offset": pos, "err": errString(err), "value_len": pr.N})
					return
				case pr.OK && took != pr.N:
					cs.Fail("skip-wrong-extent", M{"skipper": "BufferReader.Skip sharing its reader"}, M{"item": k, "stream_offset": pos, "message": fmt.Sprintf("consumed %d bytes for a value of %d", took, pr.N)})
					return
				case !pr.OK && err == nil:
					cs.Fail("skip-accepted-malformed", M{"skipper": "BufferReader.Skip sharing its reader", "causes": causeNames(pr.Causes)}, M{"item": k, "stream_offset": pos})
					return
				}
				if !pr.OK {
					break
				}
				pos += pr.N
				cs.C.Obs("values skipped by the stream codec on a shared reader", 1)
				continue
			}
			out, err := d.Next(thrift.TType(it.t))
			switch {
			case pr.OK && err != nil:
				cs.Fail("skip-rejected-wellformed", M{"skipper": "SkipDecoder sharing its reader"}, M{"item": k, "stream_offset": pos, "err": errString(err), "value_hex": hexOf(it.enc)})
				return
			case pr.OK && !bytes.Equal(out, stream[pos:pos+pr.N]):
				cs.Fail("skip-wrong-extent", M{"skipper": "SkipDecoder sharing its reader"}, M{"item": k, "stream_offset": pos, "message": fmt.Sprintf("Next returned %d bytes, the value at the reader's position has %d (equal prefix %d)", len(out), pr.N, firstDiff(out, stream[pos:pos+pr.N]))})
				return
			case !pr.OK && err == nil:
				cs.Fail("skip-accepted-malformed", M{"skipper": "SkipDecoder sharing its reader", "causes": causeNames(pr.Causes)}, M{"item": k, "stream_offset": pos, "message": fmt.Sprintf("Next accepted %d bytes where the stream holds only a strict prefix of a value", len(out))})
				return
			}
			if !pr.OK {
				if it.bad {
					// the caller knows from its framing how long the garbled value is and steps over it
					if err := rd.Skip(len(it.enc)); err != nil {
						cs.Fail("shared-reader-direct-read", nil, M{"item": k, "stream_offset": pos, "message": fmt.Sprintf("stepping over a rejected value of %d bytes failed: %v (the rejection must have consumed nothing)", len(it.enc), err)})
						return
					}
					pos += len(it.enc)
					cs.C.Obs("rejected values stepped over, decoder used again", 1)
					continue
				}
				cs.C.Obs("cut-short values rejected by a decoder sharing its reader", 1)
				break
			}
			pos += pr.N
			cs.C.Obs("values skipped by a decoder sharing its reader", 1)
		}
		cs.Count(len(items) >= 3, hexOf(stream), kind)
	})

	// (4e) the skip template itself, which the three decoders are built on and which is exported for use over
	// any of them (a field walker): it agrees with the grammar on whether a complete value is there
	c.Stage("template-over-decoders", c.Pick(20000, 400000), false, func(cs *drv.Case) {
		r := cs.R
		t := types[r.Intn(len(types))]
		v := gen.Tree(r, t, gen.TreeOpts{MaxDepth: 1 + r.Intn(3), MaxElems: 4, NoBigCounts: true}, 0)
		enc := v.Encode(nil)
		in := enc
		switch r.Intn(4) {
		case 0:
			in = enc[:r.Intn(len(enc)+1)]
		case 1:
			in, _ = gen.Mutate(r, enc, enc)
		}
		pr := ref.Parse(in, t)
		if pr.TooDeep || pr.DontCare || pr.MaxNesting >= 64 || pr.MaxAsk > 1<<20 {
			cs.C.DontCare("template-boundary-zone")
			return
		}
		kind := r.Intn(4)
		names := []string{"SkipDecoder/BytesReader", "BytesSkipDecoder", "ReaderSkipDecoder", "SkipDecoder/DefaultReader"}
		var err error
		func() {
			defer func() {
				if p := recover(); p != nil {
					err = fmt.Errorf("panic: %v", p)
					cs.Fail("skip-panic", M{"skipper": "SkipDecoderTpl over " + names[kind]}, M{"panic": fmt.Sprint(p), "input_hex": hexOf(in), "type": t})
				}
			}()
			switch kind {
			case 0:
				d := thrift.NewSkipDecoder(bufiox.NewBytesReader(place(in, 0)))
				defer d.Release()
				err = thrift.NewSkipDecoderTpl(d).Skip(thrift.TType(t), 64)
			case 1:
				d := thrift.NewBytesSkipDecoder(place(in, 0))
				defer d.Release()
				err = thrift.NewSkipDecoderTpl(d).Skip(thrift.TType(t), 64)
			case 2:
				d := thrift.NewReaderSkipDecoder(bytes.NewReader(in))
				defer d.Release()
				err = thrift.NewSkipDecoderTpl(d).Skip(thrift.TType(t), 64)
			default:
				d := thrift.NewSkipDecoder(bufiox.NewDefaultReader(&doubles.Source{Data: in, Len: len(in), ErrAt: len(in), Err: io.EOF, Sched: r.Intn(doubles.NSched), R: r, WithData: r.Intn(2) == 0, Budget: 10*len(in) + 100000}))
				defer d.Release()
				err = thrift.NewSkipDecoderTpl(d).Skip(thrift.TType(t), 64)
			}
		}()
		cs.Desc = M{"over": names[kind], "type": t, "input_hex": hexOf(in), "oracle_ok": pr.OK}
		switch {
		case pr.OK && err != nil:
			cs.Fail("skip-rejected-wellformed", M{"skipper": "SkipDecoderTpl over " + names[kind]}, M{"err": errString(err), "input_hex": hexOf(in), "type": t})
		case !pr.OK && err == nil:
			cs.Fail("skip-accepted-malformed", M{"skipper": "SkipDecoderTpl over " + names[kind], "causes": causeNames(pr.Causes)}, M{"input_hex": hexOf(in), "type": t, "message": "the skip template returned nil although no complete value is present"})
		}
		cs.Count(true, hexOf(in), t, kind)
		cs.C.Obs("template runs judged", 1)
	})

	// (4f) one bytes-backed decoder handed several values in a row: after it has returned some, a value that is cut
	// short by the end of the slice is still rejected - also when the slice is a view with live bytes behind it
	c.Stage("bytes-decoder-sequences", c.Pick(6000, 120000), false, func(cs *drv.Case) {
		r := cs.R
		n := 1 + r.Intn(4)
		var in []byte
		var ts []byte
		for k := 0; k < n; k++ {
			t := types[r.Intn(len(types))]
			v := gen.Tree(r, t, gen.TreeOpts{MaxDepth: 2, MaxElems: 4, NoBigCounts: true}, 0)
			in = v.Encode(in)
			ts = append(ts, t)
		}
		// the last value: cut short, or whole
		t := []byte{ref.STRING, ref.LIST, ref.MAP, ref.STRUCT, ref.SET, ref.I64}[r.Intn(6)]
		v := gen.Tree(r, t, gen.TreeOpts{MaxDepth: 2, MaxElems: 4, NoBigCounts: true}, 0)
		last := v.Encode(nil)
		whole := last
		if r.Intn(3) > 0 {
			last = last[:r.Intn(len(last))]
		}
		in = append(in, last...)
		ts = append(ts, t)
		var view []byte
		if r.Intn(2) == 0 {
			view = place(in, 0)
		} else {
			// a view: what follows it in memory is exactly what the cut took away, then more plausible bytes
			blk := append(append(append([]byte(nil), in...), whole[len(last):]...), whole...)
			view = blk[:len(in)]
		}
		d := thrift.NewBytesSkipDecoder(view)
		defer d.Release()
		cs.Desc = M{"values": len(ts), "input_hex": hexOf(in), "last_cut_to": len(last), "last_len": len(whole)}
		pos := 0
		for k, t := range ts {
			pr := ref.Parse(in[pos:], t)
			if pr.TooDeep || pr.DontCare || pr.MaxNesting >= 64 {
				return
			}
			var out []byte
			var err error
			func() {
				defer func() {
					if p := recover(); p != nil {
						err = fmt.Errorf("panic: %v", p)
						cs.Fail("skip-panic", M{"skipper": "BytesSkipDecoder, later value"}, M{"value_index": k, "panic": fmt.Sprint(p)})
					}
				}()
				out, err = d.Next(thrift.TType(t))
			}()
			switch {
			case pr.OK && err != nil:
				cs.Fail("skip-rejected-wellformed", M{"skipper": "BytesSkipDecoder, later value"}, M{"value_index": k, "err": errString(err)})
				return
			case pr.OK && !bytes.Equal(out, in[pos:pos+pr.N]):
				cs.Fail("skip-wrong-extent", M{"skipper": "BytesSkipDecoder, later value"}, M{"value_index": k, "got_len": len(out), "want_len": pr.N})
				return
			case !pr.OK && err == nil:
				cs.Fail("skip-accepted-malformed", M{"skipper": "BytesSkipDecoder, later value", "causes": causeNames(pr.Causes)}, M{"value_index": k, "message": fmt.Sprintf("value #%d, cut short by the end of the slice, was accepted with %d bytes", k, len(out))})
				return
			}
			if !pr.OK {
				cs.C.Obs("cut-short later values rejected by the bytes decoder", 1)
				break
			}
			pos += pr.N
		}
		cs.Count(true, hexOf(in), len(ts))
	})

	// (4b'') a struct walked field by field by the application: the field headers taken with the exported SkipN of
	// the decoder, each field value with Next - which returns that value and nothing else
	c.Stage("field-walk-with-skipn", c.Pick(4000, 80000), false, func(cs *drv.Case) {
		r := cs.R
		v := gen.Tree(r, ref.STRUCT, gen.TreeOpts{MaxDepth: 3, MaxElems: 6, NoBigCounts: true, AnyFieldIDs: true}, 0)
		enc := v.Encode(nil)
		// (only the decoder over a plain io.Reader: its SkipN takes the bytes from the source for good, so the source
		// stands at the value when Next is called; the SkipN of the other two decoders only looks ahead)
		kind := 0
		names := []string{"ReaderSkipDecoder"}
		x := thrift.NewReaderSkipDecoder(&doubles.Source{Data: enc, Len: len(enc), ErrAt: len(enc), Err: io.EOF, Sched: r.Intn(doubles.NSched), R: r, WithData: r.Intn(2) == 0, Budget: 10*len(enc) + 100000})
		defer x.Release()
		var d thrift.SkipDecoderIface = x
		next := x.Next
		cs.Desc = M{"decoder": names[kind], "fields": len(v.Fields), "struct_hex": hexOf(enc)}
		pos := 0
		for k := 0; ; k++ {
			tb, err := d.SkipN(1)
			if err != nil || len(tb) != 1 || tb[0] != enc[pos] {
				cs.Fail("skip-content-or-position", M{"skipper": names[kind], "walk": "type byte"}, M{"field": k, "offset": pos, "err": errString(err), "got": hexOf(tb)})
				return
			}
			pos++
			if tb[0] == 0 {
				break
			}
			t := thrift.TType(tb[0])
			ib, err := d.SkipN(2)
			if err != nil || len(ib) != 2 || !bytes.Equal(ib, enc[pos:pos+2]) {
				cs.Fail("skip-content-or-position", M{"skipper": names[kind], "walk": "field id"}, M{"field": k, "offset": pos, "err": errString(err), "got": hexOf(ib)})
				return
			}
			pos += 2
			want := v.Fields[k].V.Encode(nil)
			out, err := next(t)
			if err != nil {
				cs.Fail("skip-rejected-wellformed", M{"skipper": names[kind], "walk": "field value"}, M{"field": k, "offset": pos, "err": errString(err)})
				return
			}
			if !bytes.Equal(out, want) {
				cs.Fail("skip-wrong-extent", M{"skipper": names[kind], "walk": "field value"}, M{"field": k, "offset": pos, "message": fmt.Sprintf("Next returned %d bytes (%s...), the field's value has %d", len(out), hexOf(out[:minInt(len(out), 12)]), len(want))})
				return
			}
			pos += len(want)
		}
		if pos != len(enc) {
			cs.Fail("skip-wrong-extent", M{"skipper": names[kind], "walk": "end"}, M{"message": fmt.Sprintf("walk ended at %d of %d", pos, len(enc))})
			return
		}
		cs.Count(len(v.Fields) > 0, hexOf(enc), kind)
		cs.C.Obs("struct fields walked with SkipN + Next", int64(len(v.Fields)))
	})

	// (4c) size fields with the sign bit set that are followed by as many bytes as their unsigned reading
	// declares (2..8 GiB of untouched zero pages): still negative sizes, never values. The largest
	// non-negative sizes next to them, and containers whose payload crosses 2^31 and 2^32 bytes, must be accepted.
	if !c.Slow() && (c.Flavour == "plain" || c.Flavour == "go126") {
		vcs := virtualCases()
		c.Stage("sign-bit-sizes-with-data", int64(len(vcs)), true, func(cs *drv.Case) {
			runVirtualCase(cs, vcs[cs.Idx])
		})
	}

	// (4d) the input lives in a local array on a goroutine stack that has to grow while Binary.Skip recurses
	// (the runtime moves the array with the stack): the verdict must be the one for the same bytes on the heap
	c.Stage("stack-resident-input", c.Pick(2400, 24000), false, func(cs *drv.Case) {
		r := cs.R
		pad := int(cs.Idx % 300)
		depth := 20 + r.Intn(44) // 20..63
		var b []byte
		var t byte
		if r.Intn(2) == 0 {
			t = []byte{ref.STRUCT, ref.MAP, ref.SET, ref.LIST}[r.Intn(4)]
			b = gen.Nested(t, depth, r.Intn(3))
		} else {
			b, t = gen.NestedPath(gen.NestPaths[r.Intn(len(gen.NestPaths))], depth, r.Intn(2) == 0)
		}
		if len(b) > 1024 {
			return
		}
		switch r.Intn(4) {
		case 0: // cut inside the closing part
			b = b[:len(b)-1-r.Intn(minInt(len(b)-1, 40))]
		case 1: // cut anywhere
			b = b[:r.Intn(len(b))]
		}
		pr := ref.Parse(b, t)
		cs.Desc = M{"type": t, "depth": depth, "pad_frames": pad, "input_hex": hexOf(b)}
		o := stackSkip(b, t, pad)
		det := func() M {
			return M{"type": t, "input_hex": hexOf(b), "pad_frames": pad, "observed_n": o.n, "observed_err": errString(o.err), "on_stack": o.onStack,
				"oracle": M{"ok": pr.OK, "n": pr.N, "causes": causeNames(pr.Causes), "max_nesting": pr.MaxNesting}}
		}
		if o.onStack {
			cs.C.Obs("inputs on a goroutine stack", 1)
		} else {
			cs.C.Obs("inputs meant for the stack that were elsewhere", 1)
		}
		switch {
		case o.panic != nil:
			d := det()
			d["panic"] = fmt.Sprint(o.panic)
			cs.Fail("skip-panic", M{"skipper": "Binary.Skip", "placement": "stack"}, d)
		case pr.TooDeep || pr.DontCare || pr.MaxNesting >= 64:
		case pr.OK && o.err != nil:
			cs.Fail("skip-rejected-wellformed", M{"skipper": "Binary.Skip", "placement": "stack"}, det())
		case pr.OK && o.n != pr.N:
			cs.Fail("skip-wrong-extent", M{"skipper": "Binary.Skip", "placement": "stack"}, det())
		case !pr.OK && o.err == nil:
			cs.Fail("skip-accepted-malformed", M{"skipper": "Binary.Skip", "placement": "stack", "causes": causeNames(pr.Causes)}, det())
		}
		cs.Count(true, "stack", t, pad, b)
	})

	// (5) every type byte as requested type on small inputs
	c.Stage("type-bytes", 256, true, func(cs *drv.Case) {
		t := byte(cs.Idx)
		inputs := [][]byte{{}, {0}, {1, 2, 3, 4}, {0, 0, 0, 1, 0x41}, {0x0b, 0x0b, 0, 0, 0, 0}, {0x08, 0, 0, 0, 1, 0, 0, 0, 5}, {0x80, 0, 1, 0, 0}, {1, 2, 3, 4, 5, 6, 7, 8, 9}}
		for _, b := range inputs {
			cs.Desc = M{"type": t, "input_hex": hexOf(b)}
			runAllSkippers(cs, b, t, allocCap, true)
		}
	})
}

// mixedNest builds depth nested containers alternating struct > list > map(value position).
func mixedNest(depth int) []byte {
	var open []byte // kinds opened, outermost first; outermost is a struct
	var b []byte
	closers := []int{}
	for i := 0; i < depth; i++ {
		kind := []byte{ref.STRUCT, ref.LIST, ref.MAP}[i%3]
		open = append(open, kind)
		last := i == depth-1
		next := []byte{ref.STRUCT, ref.LIST, ref.MAP}[(i+1)%3]
		switch kind {
		case ref.STRUCT:
			if last {
				b = append(b, ref.I32, 0, 1, 0, 0, 0, 1)
			} else {
				b = append(b, next, 0, 1)
			}
			closers = append(closers, 1)
		case ref.LIST:
			if last {
				b = append(b, ref.I32, 0, 0, 0, 1, 0, 0, 0, 7)
			} else {
				b = append(b, next, 0, 0, 0, 1)
			}
			closers = append(closers, 0)
		case ref.MAP:
			if last {
				b = append(b, ref.I32, ref.I32, 0, 0, 0, 1, 0, 0, 0, 9, 0, 0, 0, 8)
			} else {
				b = append(b, ref.I32, next, 0, 0, 0, 1, 0, 0, 0, 9)
			}
			closers = append(closers, 0)
		}
	}
	for i := len(closers) - 1; i >= 0; i-- {
		if closers[i] == 1 {
			b = append(b, 0)
		}
	}
	return b
}
