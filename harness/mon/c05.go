package mon

import (
	"fmt"

	"verifharness/drv"
	"verifharness/gen"
	"verifharness/san"
)

func init() { drv.Register("C05", monC05) }

// 25-symbol alphabet: Malloc eager x8, Malloc lazy x8, WriteBinary x8, Flush
func wSymbol(i int) wOp {
	if i == 24 {
		return wOp{Kind: wFlush}
	}
	switch i / 8 {
	case 0:
		return wOp{Kind: wMalloc, N: wSizes[i%8]}
	case 1:
		return wOp{Kind: wMalloc, N: wSizes[i%8], Lazy: true}
	}
	return wOp{Kind: wWriteBinary, N: wSizes[i%8]}
}

func monC05(c *drv.Ctx) {
	maxLen := int(c.Pick(3, 4))
	if c.Flavour == "poison" {
		maxLen = int(c.Pick(2, 3))
	}
	// configurations per history: default writer ok sink; default writer failing at 1st / 2nd write; bytes writer x 5 initial classes
	const nCfg = 8
	cfg := func(cs *drv.Case, k int) writerOpts {
		switch k {
		case 0:
			return writerOpts{}
		case 1:
			return writerOpts{failAt: 1, failMode: cs.R.Intn(3), failErr: cs.R.Intn(5), failOnce: cs.R.Intn(2) == 0}
		case 2:
			return writerOpts{failAt: 2, failMode: cs.R.Intn(3), failErr: cs.R.Intn(5), failOnce: cs.R.Intn(2) == 0}
		}
		return writerOpts{bytesWriter: true, initClass: k - 3, initLen: []int{0, 1, 100, 4095, 4096, 5000}[cs.R.Intn(6)]}
	}
	for n := 1; n <= maxLen; n++ {
		n := n
		total := gen.Pow(25, n) * nCfg
		c.Stage(fmt.Sprintf("exhaustive-len%d", n), total, true, func(cs *drv.Case) {
			k := int(cs.Idx % nCfg)
			code := cs.Idx / nCfg
			ops := make([]wOp, n, n+1)
			for i := n - 1; i >= 0; i-- {
				ops[i] = wSymbol(int(code % 25))
				code /= 25
			}
			ops = append(ops, wOp{Kind: wFlush}) // every history ends with a Flush so that everything is judged
			if k == 2 {
				ops = append(ops, wOp{Kind: wMalloc, N: 1}, wOp{Kind: wFlush}, wOp{Kind: wWriteBinary, N: 1}, wOp{Kind: wFlush})
			}
			o := cfg(cs, k)
			cs.Desc = M{"ops": wOpsString(ops), "bytes_writer": o.bytesWriter, "init_class": o.initClass, "init_len": o.initLen, "sink_fail_at": o.failAt, "sink_fail_mode": o.failMode, "sink_error": o.failErr, "sink_recovers": o.failOnce}
			nt := runWriterHistory(cs, ops, o)
			cs.Count(nt, wOpsString(ops), k, o.initLen)
			if nt && cs.WantSample() && cs.Idx%1201 == 2 {
				cs.Sample(cs.Desc)
			}
		})
	}
	nRandom := c.Pick(100000, 2000000)
	if c.Flavour == "poison" {
		nRandom = c.Pick(4000, 200000)
	}
	c.Stage("random", nRandom, false, func(cs *drv.Case) {
		r := cs.R
		n := 1 + r.Intn(25)
		if r.Intn(25) == 0 {
			n = 60 + r.Intn(120)
		}
		ops := randomWriterOps(r, n)
		o := writerOpts{}
		switch r.Intn(4) {
		case 0:
			o.bytesWriter = true
			o.initClass = r.Intn(5)
			o.initLen = []int{0, 1, 7, 100, 4095, 4096, 4097, 9000}[r.Intn(8)]
		case 1:
			nf := 0
			for _, op := range ops {
				if op.Kind == wFlush {
					nf++
				}
			}
			o.failAt = 1 + r.Intn(nf+1)
			o.failOnce = r.Intn(2) == 0
			o.failMode = r.Intn(3)
			o.failErr = r.Intn(5)
		}
		cs.Desc = M{"ops": wOpsString(ops), "bytes_writer": o.bytesWriter, "init_class": o.initClass, "init_len": o.initLen, "sink_fail_at": o.failAt, "sink_fail_mode": o.failMode, "sink_error": o.failErr, "sink_recovers": o.failOnce}
		nt := runWriterHistory(cs, ops, o)
		cs.Count(nt, wOpsString(ops), o)
		if nt && cs.WantSample() && n < 10 && cs.Idx%173 == 1 {
			cs.Sample(cs.Desc)
		}
	})
	// very large payloads, also as the very first operation on a fresh or just-flushed writer
	bigs := []int{65535, 65536, 65537, 131072, 200000, 1 << 20, 1<<20 + 1, 3 << 20}
	c.Stage("big-writes", int64(len(bigs)*3*5), true, func(cs *drv.Case) {
		n := bigs[cs.Idx%int64(len(bigs))]
		kind := int(cs.Idx/int64(len(bigs))) % 3
		k := int(cs.Idx / int64(len(bigs)*3))
		big := wOp{Kind: wWriteBinary, N: n}
		if kind == 1 {
			big = wOp{Kind: wMalloc, N: n}
		} else if kind == 2 {
			big = wOp{Kind: wMalloc, N: n, Lazy: true}
		}
		ops := []wOp{big, {Kind: wMalloc, N: 4}, {Kind: wWriteBinary, N: 3}, {Kind: wFlush}, big, {Kind: wWriteBinary, N: 1}, {Kind: wFlush}, {Kind: wMalloc, N: 9}, big, {Kind: wFlush}}
		o := writerOpts{}
		if k > 0 {
			o = writerOpts{bytesWriter: true, initClass: k - 1, initLen: []int{0, 0, 5, 4096}[k-1]}
		}
		cs.Desc = M{"ops": wOpsString(ops), "bytes_writer": o.bytesWriter, "init_class": o.initClass}
		runWriterHistory(cs, ops, o)
		cs.Count(true, "big", n, kind, k)
		cs.C.Obs("big-write cases", 1)
	})

	// a great deal accumulated between two flushes, in many pieces: whatever bound an implementation puts on
	// its buffer, regions handed out stay the caller's to fill until Flush and nothing leaves before it
	accTotals := []int{1<<20 + 4097, 2<<20 + 1, 5 << 20}
	c.Stage("accumulate-megabytes", int64(len(accTotals)*2*2), true, func(cs *drv.Case) {
		total := accTotals[cs.Idx%int64(len(accTotals))]
		piece := []int{65536, 300000}[(cs.Idx/int64(len(accTotals)))%2]
		bw := cs.Idx/int64(len(accTotals)*2) == 1
		var ops []wOp
		for acc, k := 0, 0; acc < total; acc, k = acc+piece, k+1 {
			switch k % 3 {
			case 0:
				ops = append(ops, wOp{Kind: wMalloc, N: piece, Lazy: true})
			case 1:
				ops = append(ops, wOp{Kind: wWriteBinary, N: piece})
			default:
				ops = append(ops, wOp{Kind: wMalloc, N: piece})
			}
			if k%4 == 3 {
				ops = append(ops, wOp{Kind: wMalloc, N: 7, Lazy: true})
			}
		}
		ops = append(ops, wOp{Kind: wFlush}, wOp{Kind: wMalloc, N: 5}, wOp{Kind: wFlush})
		o := writerOpts{bytesWriter: bw, initClass: 2, initLen: 9}
		cs.Desc = M{"pieces": len(ops) - 3, "piece_bytes": piece, "accumulated_before_flush": total, "bytes_writer": bw}
		runWriterHistory(cs, ops, o)
		cs.Count(true, "acc", total, piece, bw)
		cs.C.Obs("histories accumulating more than 1 MiB between flushes", 1)
	})

	// one writer used for a very long time: more flush cycles than any 16-bit counter holds
	c.Stage("many-flush-cycles", 1, true, func(cs *drv.Case) {
		if san.PoolShim {
			return // the shim quarantines every freed buffer and re-scans the quarantine at every flush: quadratic in the harness
		}
		n := 66000
		ops := make([]wOp, 0, 2*n+4)
		for i := 0; i < n; i++ {
			ops = append(ops, wOp{Kind: wMalloc, N: 1 + i%3}, wOp{Kind: wFlush})
		}
		ops = append(ops, wOp{Kind: wMalloc, N: 5000, Lazy: true}, wOp{Kind: wWriteBinary, N: 9}, wOp{Kind: wFlush})
		o := writerOpts{}
		if cs.Idx == 1 {
			o = writerOpts{bytesWriter: true, initClass: 2, initLen: 3}
		}
		cs.Desc = M{"flush_cycles": n, "bytes_writer": o.bytesWriter}
		runWriterHistory(cs, ops, o)
		cs.Count(true, "manyflush", cs.Idx)
		cs.C.Obs("histories with more than 65536 flush cycles", 1)
	})

	// sink failing at every k for histories with many flushes
	c.Stage("fail-at-every-k", c.Pick(300, 20000), false, func(cs *drv.Case) {
		r := cs.R
		var ops []wOp
		nf := 2 + r.Intn(5)
		for f := 0; f < nf; f++ {
			ops = append(ops, randomWriterOps(r, 1+r.Intn(4))...)
			ops = append(ops, wOp{Kind: wFlush})
		}
		total := 0
		for _, op := range ops {
			if op.Kind == wFlush {
				total++
			}
		}
		for k := 1; k <= total+1; k++ {
			o := writerOpts{failAt: k, failMode: k % 3, failErr: (k / 3) % 5, failOnce: (k+int(cs.Idx))%2 == 0}
			cs.Desc = M{"ops": wOpsString(ops), "sink_fail_at": k}
			runWriterHistory(cs, ops, o)
		}
		cs.Count(true, wOpsString(ops))
		cs.C.Obs("fail-at-every-k histories", 1)
	})
}
