package mon

import (
	"bytes"
	"errors"
	"fmt"
	"math/rand"
	"strings"

	"github.com/cloudwego/gopkg/bufiox"

	"verifharness/doubles"
	"verifharness/drv"
	"verifharness/san"
)

const (
	wMalloc = iota
	wWriteBinary
	wFlush
)

var wOpNames = []string{"Malloc", "WriteBinary", "Flush"}

type wOp struct {
	Kind int
	N    int
	Lazy bool // Malloc: fill the region only right before the next Flush
}

func (o wOp) String() string {
	if o.Kind == wFlush {
		return "Flush"
	}
	if o.Lazy {
		return fmt.Sprintf("%s(%d,lazy)", wOpNames[o.Kind], o.N)
	}
	return fmt.Sprintf("%s(%d)", wOpNames[o.Kind], o.N)
}

var wSizes = []int{0, 1, 3, 4095, 4096, 4097, 8193, 20000}

type writerOpts struct {
	bytesWriter bool
	initClass   int // bytes writer: 0 nil, 1 empty with cap, 2 partial, 3 full, 4 empty without capacity (non-nil)
	initLen     int
	failAt      int  // sink fails at this Write call (1-based), 0 never
	failMode    int  // what the failing Write reports (see doubles.Sink.FailMode)
	failErr     int  // index into doubles.SinkErrors
	failOnce    bool // the sink recovers after its one failure (the writer's error must stick all the same)
	retain      bool
	cotenant    bool
}

type region struct {
	b    []byte // the slice handed out by Malloc
	want []byte // what the caller (finally) stored
	lazy bool
	op   int
}

// regionByte gives each region distinct content.
func regionByte(tag, i int) byte { return byte(tag*37 + i*11 + (i >> 8) + 1) }

func wOpsString(ops []wOp) string {
	var b strings.Builder
	for i, o := range ops {
		if i > 0 {
			b.WriteByte(' ')
		}
		if i == 400 && len(ops) > 800 {
			// very long histories are built by a rule their stage states; the replay re-generates them
			fmt.Fprintf(&b, "... (%d operations in all) ...", len(ops))
			for _, o := range ops[len(ops)-20:] {
				b.WriteByte(' ')
				b.WriteString(o.String())
			}
			break
		}
		b.WriteString(o.String())
	}
	return b.String()
}

// runWriterHistory executes ops against a real bufiox writer and checks everything against
// the region model. Returns the non-triviality flag.
func runWriterHistory(cs *drv.Case, ops []wOp, o writerOpts) (nontrivial bool) {
	if historyGaveUp.Load() {
		return false
	}
	returned, pnc := cs.C.Bounded(historyBound, "writer history", func() {
		nontrivial = runWriterHistoryInner(cs, ops, o)
	})
	if pnc != nil {
		panic(pnc)
	}
	if !returned {
		historyGaveUp.Store(true)
		cs.Fail("operation-never-returned", M{"writer": "history"}, M{"ops": fmt.Sprint(ops), "message": fmt.Sprintf("a writer operation of this history had not returned after %v", historyBound)})
	}
	return nontrivial
}

func runWriterHistoryInner(cs *drv.Case, ops []wOp, o writerOpts) bool {
	var w bufiox.Writer
	sinkErr := doubles.SinkErrors[o.failErr%len(doubles.SinkErrors)]
	sink := &doubles.Sink{FailAt: o.failAt, Err: sinkErr, FailMode: o.failMode, FailOnce: o.failOnce}
	var target []byte
	var init *san.Canary
	var initCopy []byte
	if san.PoolShim {
		san.PoolReset()
	}
	if o.bytesWriter {
		switch o.initClass {
		case 0:
			target = nil
		case 4:
			target = []byte{} // not nil, no capacity
		case 1:
			init = san.NewCanary(0, 64+o.initLen, func(i int) byte { return 0x77 })
			target = init.Buf()
		case 2:
			init = san.NewCanary(o.initLen, o.initLen+1+cs.R.Intn(5000), func(i int) byte { return byte(0x30 + i%10) })
			target = init.Buf()
		default:
			init = san.NewCanary(o.initLen, o.initLen, func(i int) byte { return byte(0x30 + i%10) })
			target = init.Buf()
		}
		initCopy = append([]byte(nil), target...)
		w = bufiox.NewBytesWriter(&target)
	} else {
		if cs.R.Intn(5) == 0 {
			// the same sink with the method set of a net.Conn (and WriteString): what else the io.Writer can do
			// must not change what is delivered through it
			w = bufiox.NewDefaultWriter(doubles.ConnSink{Sink: sink})
			cs.C.Obs("histories over a net.Conn-shaped sink", 1)
		} else {
			w = bufiox.NewDefaultWriter(sink)
		}
	}
	ct := &coTenant{r: cs.R}
	defer ct.done()

	type published struct{ b, snap []byte }
	var pubs []published // slices a bytes writer published at earlier Flushes: they belong to the caller now
	checkPubs := func(i int, when string) bool {
		for k := range pubs {
			if !bytes.Equal(pubs[k].b, pubs[k].snap) {
				cs.Fail("bytes-writer-earlier-result-changed", nil, M{"op_index": i, "message": fmt.Sprintf("the slice published by Flush #%d changed %s (first diff at %d)", k+1, when, firstDiff(pubs[k].b, pubs[k].snap))})
				return false
			}
		}
		return true
	}
	var everything []byte     // bytes writer: all bytes written so far (flushed)
	var expectAll []byte      // everything that should have reached the sink so far (successful flushes)
	var pending []interface{} // *region or []byte payload copies, in call order
	var live []*region
	var payloads []*san.Canary
	unflushed := len(initCopy)
	failed := false
	flushes, growthHint := 0, false
	sawLazy, sawFail := false, false
	flushedOnce := false
	maxReq := 4096
	tag := 0

	fail := func(check string, i int, msg string, args ...interface{}) {
		cs.Fail(check, M{"op": wOpNames[ops[i].Kind]}, M{"op_index": i, "op": ops[i].String(), "message": fmt.Sprintf(msg, args...)})
	}
	liveSlices := func() [][]byte {
		var out [][]byte
		for _, r := range live {
			out = append(out, r.b)
		}
		return out
	}
	checkCaller := func(i int, when string) bool {
		for _, p := range payloads {
			if off, ok := p.Check(); !ok {
				fail("caller-memory-modified", i, "a WriteBinary payload was modified at offset %d %s", off, when)
				return false
			}
		}
		if init != nil && !flushedOnce {
			// only bytes [0:len) and the margins are protected: spare capacity is the writer's to use
			b := init.Buf()
			if !bytes.Equal(b[:len(initCopy)], initCopy) {
				fail("caller-memory-modified", i, "initial contents of the bytes-writer target were modified %s", when)
				return false
			}
		}
		return true
	}

	// a second writer of the same goroutine used between the operations of the one under test
	var shadowW *bufiox.DefaultWriter
	if !san.PoolShim && cs.R.Intn(4) == 0 {
		shadowW = bufiox.NewDefaultWriter(&doubles.Sink{})
		cs.C.Obs("histories with a second writer interleaved", 1)
	}
	shadowStepW := func() {
		if shadowW == nil {
			return
		}
		switch cs.R.Intn(3) {
		case 0:
			if b, err := shadowW.Malloc(1 + cs.R.Intn(6000)); err == nil {
				for k := range b {
					b[k] = 0x5A
				}
			}
		case 1:
			shadowW.WriteBinary(bytes.Repeat([]byte{0x5B}, 1+cs.R.Intn(5000)))
		default:
			shadowW.Flush()
		}
	}
	defer func() {
		if shadowW != nil {
			shadowW.Flush()
		}
	}()
	for i, op := range ops {
		shadowStepW()
		if op.N > maxReq {
			maxReq = op.N
		}
		switch op.Kind {
		case wMalloc:
			b, err := w.Malloc(op.N)
			if failed {
				if err == nil {
					fail("writer-error-not-sticky", i, "Malloc succeeded after a sink failure")
					return true
				}
				if !errors.Is(err, sinkErr) {
					fail("writer-error-not-sticky", i, "Malloc after a sink failure returned %q, not the sink's error", errString(err))
				}
				continue
			}
			if op.N < 0 {
				if err == nil {
					fail("writer-negative-count-accepted", i, "Malloc(%d) returned no error", op.N)
				}
				continue
			}
			if err != nil {
				fail("writer-spurious-error", i, "Malloc returned %q", errString(err))
				return true
			}
			if len(b) != op.N {
				fail("writer-malloc-wrong-length", i, "Malloc(%d) returned %d bytes", op.N, len(b))
				return true
			}
			for _, r := range live {
				if san.OverlapsLen(r.b, b) {
					fail("writer-regions-overlap", i, "the new region overlaps the live region handed out by op #%d", r.op)
					return true
				}
			}
			for _, p := range payloads {
				if san.OverlapsLen(p.Buf(), b) {
					fail("writer-region-overlaps-payload", i, "the new region overlaps a caller payload")
					return true
				}
			}
			tag++
			rg := &region{b: b, want: make([]byte, op.N), lazy: op.Lazy, op: i}
			for k := range rg.want {
				rg.want[k] = regionByte(tag, k)
			}
			if !op.Lazy {
				copy(b, rg.want)
			} else {
				sawLazy = sawLazy || op.N > 0
			}
			live = append(live, rg)
			pending = append(pending, rg)
			unflushed += op.N
			if unflushed > 4096 {
				growthHint = true
			}
		case wWriteBinary:
			n := op.N
			if n < 0 {
				n = 0
			}
			tag++
			t := tag
			p := san.NewCanary(n, n+cs.R.Intn(3), func(k int) byte { return regionByte(t, k) })
			m, err := w.WriteBinary(p.Buf())
			if failed {
				if err == nil {
					fail("writer-error-not-sticky", i, "WriteBinary succeeded after a sink failure")
					return true
				}
				if !errors.Is(err, sinkErr) {
					fail("writer-error-not-sticky", i, "WriteBinary after a sink failure returned %q, not the sink's error", errString(err))
				}
				continue
			}
			if err != nil || m != n {
				fail("writer-writebinary-result", i, "WriteBinary(%d bytes) = (%d, %v)", n, m, err)
				return true
			}
			payloads = append(payloads, p)
			pending = append(pending, append([]byte(nil), p.Buf()...))
			unflushed += n
			if unflushed > 4096 {
				growthHint = true
			}
		case wFlush:
			// lazy fills, in shuffled order, and re-fill of some eager regions with new content
			idx := cs.R.Perm(len(live))
			for _, k := range idx {
				rg := live[k]
				if rg.lazy {
					copy(rg.b, rg.want)
				} else if cs.R.Intn(4) == 0 && len(rg.b) > 0 {
					for j := range rg.want {
						rg.want[j] ^= 0x55
					}
					copy(rg.b, rg.want)
				}
			}
			// regions must still hold what was stored (nobody else writes into them)
			for _, rg := range live {
				if !bytes.Equal(rg.b, rg.want) {
					fail("writer-region-clobbered", i, "region of op #%d does not hold what the caller stored in it", rg.op)
					return true
				}
			}
			if !checkCaller(i, "before Flush") {
				return true
			}
			writesBefore := len(sink.Writes)
			err := w.Flush()
			if failed {
				if err == nil {
					fail("writer-error-not-sticky", i, "Flush returned nil after a sink failure")
					return true
				}
				if !errors.Is(err, sinkErr) {
					fail("writer-error-not-sticky", i, "Flush after a sink failure returned %q, not the sink's error", errString(err))
				}
				continue
			}
			var want []byte
			for _, p := range pending {
				switch v := p.(type) {
				case *region:
					want = append(want, v.want...)
				case []byte:
					want = append(want, v...)
				}
			}
			if o.bytesWriter {
				if err != nil {
					fail("writer-spurious-error", i, "bytes writer Flush returned %q", errString(err))
					return true
				}
				if !flushedOnce {
					everything = append(everything, want...)
					full := append(append([]byte(nil), initCopy...), want...)
					if !bytes.Equal(target, full) {
						fail("bytes-writer-target", i, "after Flush the target holds %d bytes, want initial %d + written %d (first diff at %d)", len(target), len(initCopy), len(want), firstDiff(target, full))
						return true
					}
					cs.C.Obs("bytes-writer flushes judged", 1)
					if o.cotenant {
						// the published slice now belongs to the caller: the pool must never hand it out
						snap := append([]byte(nil), target...)
						if !ct.run(cs, nil, []*san.Canary{init}, [][]byte{target}, maxReq, "bytes-writer-result") {
							return true
						}
						if !bytes.Equal(target, snap) {
							fail("bytes-writer-target", i, "the published target changed after the pool co-tenant reused buffers")
							return true
						}
					}
					if san.PoolShim && san.PoolInFreed(target) {
						fail("bytes-writer-target", i, "the published target lies in memory that was recycled into the pool")
						return true
					}
				}
				if flushedOnce && len(want) > 0 {
					// a later Flush of the same bytes writer: the target holds the initial contents followed by
					// everything written so far (nothing that was flushed before may disappear from it)
					everything = append(everything, want...)
					full := append(append([]byte(nil), initCopy...), everything...)
					if !bytes.Equal(target, full) {
						fail("bytes-writer-reflush", i, "after a later Flush the target holds %d bytes, want initial %d + everything written so far %d (first diff at %d)", len(target), len(initCopy), len(everything), firstDiff(target, full))
						return true
					}
					cs.C.Obs("bytes-writer re-flushes judged", 1)
				}
				flushedOnce = true
				if len(target) > 0 {
					pubs = append(pubs, published{target, append([]byte(nil), target...)})
				}
				if len(want) > 0 && cs.R.Intn(3) == 0 { // (only after a Flush that really published something)
					// the published slice is the caller's: it appends to it (into its spare capacity, if any)
					// before using the writer again. Later regions of the writer must not come from that memory,
					// and later flushes append behind what the caller added.
					marker := []byte{0xC1, 0xC2, 0xC3, 0xC4, 0xC5, 0xC6}
					target = append(target, marker...)
					everything = append(everything, marker...)
					cs.C.Obs("caller appends to the published target between flushes", 1)
				}
			} else {
				sinkFails := o.failAt > 0 && sink.Calls >= o.failAt
				if sinkFails {
					sawFail = true
					cs.C.Obs("sink failures injected", 1)
					if o.failOnce {
						cs.C.Obs("sink failures injected into a sink that recovers afterwards", 1)
					}
					if err == nil {
						fail("writer-sink-error-lost", i, "the sink failed but Flush returned nil")
						return true
					}
					if !errors.Is(err, sinkErr) {
						fail("writer-sink-error-lost", i, "Flush returned %q, not the sink's error", errString(err))
					}
					failed = true
					// what reached the sink before the failure is judged at the end
					pending, live = nil, nil
					continue
				}
				if err != nil {
					fail("writer-spurious-error", i, "Flush returned %q", errString(err))
					return true
				}
				var got []byte
				for _, wr := range sink.Writes[writesBefore:] {
					got = append(got, wr...)
				}
				if !bytes.Equal(got, want) {
					fail("writer-flush-bytes", i, "the sink received %d bytes for this Flush, want %d (first diff at %d)", len(got), len(want), firstDiff(got, want))
					return true
				}
				expectAll = append(expectAll, want...)
			}
			flushes++
			pending, live, payloads = nil, nil, nil
			unflushed = 0
			if san.PoolShim {
				if f := san.PoolFaults(); len(f) > 0 {
					cs.Fail("pool-discipline", M{"fault": firstWord(f[0])}, M{"op_index": i, "faults": f})
					return true
				}
			}
		}
		if len(pubs) > 0 && !checkPubs(i, "after a later operation on the same writer") {
			return true
		}
		if !failed {
			if got := w.WrittenLen(); got != unflushed {
				fail("writtenlen-mismatch", i, "WrittenLen() = %d, want %d unflushed bytes", got, unflushed)
				return true
			}
		}
		if o.retain {
			for _, rg := range live {
				if !rg.lazy && !bytes.Equal(rg.b, rg.want) {
					fail("writer-region-clobbered", i, "region of op #%d changed after a later operation", rg.op)
					return true
				}
				if san.PoolShim && san.PoolInFreed(rg.b) {
					fail("writer-region-in-recycled-memory", i, "region of op #%d lies in a recycled buffer", rg.op)
					return true
				}
			}
			if o.cotenant {
				var pl []*san.Canary
				pl = append(pl, payloads...)
				pl = append(pl, init)
				if !ct.run(cs, nil, pl, liveSlices(), maxReq, "writer") {
					return true
				}
				for _, rg := range live {
					if !rg.lazy && !bytes.Equal(rg.b, rg.want) {
						fail("writer-region-clobbered", i, "region of op #%d changed after the pool co-tenant reused buffers", rg.op)
						return true
					}
				}
			}
			if !checkCaller(i, "after a later operation") {
				return true
			}
		}
	}
	last := len(ops) - 1
	if last >= 0 && !o.bytesWriter {
		if all := sink.All(); !bytes.Equal(all, expectAll) {
			cs.Fail("writer-total-bytes", nil, M{"message": fmt.Sprintf("over the whole history the sink received %d bytes, want %d", len(all), len(expectAll))})
		}
	}
	if last >= 0 {
		checkCaller(last, "at the end of the history")
	}
	if init != nil {
		// margins of the caller block must be intact in any case
		b := init.Buf()
		_ = b
	}
	if san.PoolShim {
		if f := san.PoolFaults(); len(f) > 0 {
			cs.Fail("pool-discipline", M{"fault": firstWord(f[0])}, M{"faults": f})
		}
		m, fr, _ := san.PoolStats()
		cs.C.Obs("pool mallocs (shim)", int64(m))
		cs.C.Obs("pool frees (shim)", int64(fr))
	}
	cs.C.Obs("flushes", int64(flushes))
	if growthHint {
		cs.C.Obs("histories with growth", 1)
	}
	if sawLazy {
		cs.C.Obs("histories with lazily filled regions", 1)
	}
	return growthHint || sawLazy || sawFail || flushes >= 2
}

func randomWriterOps(r *rand.Rand, n int) []wOp {
	ops := make([]wOp, n)
	for i := range ops {
		k := r.Intn(10)
		switch {
		case k < 5:
			ops[i].Kind = wMalloc
			ops[i].Lazy = r.Intn(2) == 0
		case k < 8:
			ops[i].Kind = wWriteBinary
		default:
			ops[i].Kind = wFlush
			continue
		}
		switch x := r.Intn(12); {
		case x < 5:
			ops[i].N = r.Intn(64)
		case x < 8:
			ops[i].N = wSizes[r.Intn(len(wSizes))]
		case x < 10:
			ops[i].N = r.Intn(9000)
		case x == 10:
			ops[i].N = 4090 + r.Intn(12)
		default:
			ops[i].N = 20000 + r.Intn(50000)
		}
		if ops[i].Kind == wMalloc && r.Intn(80) == 0 {
			ops[i].N = -1
		}
	}
	if r.Intn(4) > 0 {
		ops = append(ops, wOp{Kind: wFlush})
	}
	return ops
}
