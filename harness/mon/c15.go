package mon

import (
	"bytes"
	"fmt"

	"github.com/cloudwego/gopkg/protocol/thrift"
	"github.com/cloudwego/gopkg/protocol/thrift/base"

	"verifharness/doubles"
	"verifharness/drv"
	"verifharness/gen"
	"verifharness/ref"
)

func init() { drv.Register("C15", monC15) }

var c15Lens = []int{0, 1, 100, 4094, 4095, 4096, 4097, 8192, 12288, 20000}

// window returns a slice of length n whose capacity exceeds its length by spare bytes
// (a window into a larger block), the spare part pre-filled with a marker.
func window(n, spare int) []byte {
	blk := make([]byte, n+spare)
	for i := range blk {
		blk[i] = 0xC3
	}
	return blk[:n]
}

func c15Raw(cs *drv.Case, lens []int, isBinary []bool, spare int, nilWriter bool) {
	x := thrift.Binary
	var want []byte
	vals := make([][]byte, len(lens))
	total := 0
	for i, l := range lens {
		vals[i] = gen.Bytes(cs.R, l)
		want = ref.EncBinary(want, vals[i])
		total += 4 + l
		if x.StringLengthNocopy(string(vals[i])) != x.StringLength(string(vals[i])) || x.BinaryLengthNocopy(vals[i]) != x.BinaryLength(vals[i]) || x.StringLength(string(vals[i])) != 4+l {
			cs.Fail("nocopy-length", nil, M{"len": l})
			return
		}
	}
	buf := window(total, spare)
	dwr := &doubles.DirectWriter{}
	var w thrift.NocopyWriter
	if !nilWriter {
		w = dwr
		if cs.R.Intn(3) == 0 {
			w = doubles.DirectWriterV{P: dwr} // a direct writer that is a struct value
		}
	}
	off := 0
	for i := range lens {
		if isBinary[i] {
			off += x.WriteBinaryNocopy(buf[off:], w, vals[i])
		} else {
			off += x.WriteStringNocopy(buf[off:], w, string(vals[i]))
		}
	}
	desc := M{"lens": fmt.Sprint(lens), "binary": fmt.Sprint(isBinary), "spare_cap": spare, "nil_writer": nilWriter, "returned_offset": off, "pieces": len(dwr.Pieces), "remains": fmt.Sprint(dwr.Remains)}
	cs.Desc = desc
	if nilWriter {
		if off != total || !bytes.Equal(buf[:off], want) {
			cs.Fail("nocopy-nil-writer-differs", nil, M{"message": fmt.Sprintf("without a direct writer the no-copy path wrote %d bytes, the copying path %d (first diff %d)", off, total, firstDiff(buf[:minInt(off, len(buf))], want))})
		}
		cs.C.Obs("nil-writer sequences", 1)
		return
	}
	sum := off
	for _, p := range dwr.Pieces {
		sum += len(p)
		if len(p) < 4096 {
			cs.C.DontCare("piece-below-threshold")
		}
	}
	if sum != total {
		cs.Fail("nocopy-length-accounting", nil, M{"message": fmt.Sprintf("returned offset %d + direct pieces = %d, advertised length %d", off, sum, total)})
		return
	}
	got, ok := dwr.Splice(buf, off)
	if !ok {
		cs.Fail("nocopy-splice-position", nil, M{"message": "the indicated splice positions are not increasing positions inside the written part of the linear buffer"})
		return
	}
	if !bytes.Equal(got, want) {
		cs.Fail("nocopy-stream-differs", nil, M{"message": fmt.Sprintf("spliced stream (%d bytes) differs from the copying path (%d bytes), first diff at %d", len(got), len(want), firstDiff(got, want))})
		return
	}
	for i, l := range lens {
		if l >= 4096 {
			found := false
			for _, p := range dwr.Pieces {
				if len(p) == l && bytes.Equal(p, vals[i]) {
					found = true
				}
			}
			if !found {
				cs.C.DontCare("large-value-copied")
			}
		}
	}
	cs.C.Obs("direct pieces spliced", int64(len(dwr.Pieces)))
	cs.C.Obs("nocopy sequences", 1)
}

func monC15(c *drv.Ctx) {
	// (1) raw sequences: exhaustive over pairs/triples of lengths
	nl := int64(len(c15Lens))
	c.Stage("raw-grid", nl*nl*nl, true, func(cs *drv.Case) {
		i := cs.Idx
		lens := []int{c15Lens[i%nl], c15Lens[(i/nl)%nl], c15Lens[i/(nl*nl)]}
		bin := []bool{i%2 == 0, i%3 == 0, i%5 == 0}
		for _, spare := range []int{0, 1, 64} {
			c15Raw(cs, lens, bin, spare, false)
		}
		c15Raw(cs, lens, bin, 0, true)
		large := 0
		for _, l := range lens {
			if l >= 4096 {
				large++
			}
		}
		cs.Count(large >= 1, "raw", lens)
		if cs.WantSample() && large >= 2 && cs.Idx%97 == 3 {
			cs.Sample(cs.Desc)
		}
	})
	c.Stage("raw-random", c.Pick(50000, 500000), false, func(cs *drv.Case) {
		r := cs.R
		n := 1 + r.Intn(8)
		lens := make([]int, n)
		bin := make([]bool, n)
		large := 0
		for i := range lens {
			lens[i] = c15Lens[r.Intn(len(c15Lens))]
			if r.Intn(3) == 0 {
				lens[i] = 4090 + r.Intn(12)
			}
			bin[i] = r.Intn(2) == 0
			if lens[i] >= 4096 {
				large++
			}
		}
		c15Raw(cs, lens, bin, []int{0, 0, 1, 7, 4096}[r.Intn(5)], r.Intn(5) == 0)
		cs.Count(large >= 1, "rawr", lens, bin)
	})
	// (1a) values far above the threshold (whatever piece size an implementation prefers, the spliced stream is
	// the same): 1 MiB and more, alone and next to small and threshold-sized neighbours
	hugeLens := []int{1 << 20, 1<<20 + 1, 2<<20 + 5, 3 << 20}
	c.Stage("raw-huge", int64(len(hugeLens)*3), true, func(cs *drv.Case) {
		h := hugeLens[cs.Idx%int64(len(hugeLens))]
		var lens []int
		switch cs.Idx / int64(len(hugeLens)) {
		case 0:
			lens = []int{h}
		case 1:
			lens = []int{5, h, 4096}
		default:
			lens = []int{h, 100, h / 2}
		}
		bin := make([]bool, len(lens))
		for i := range bin {
			bin[i] = (int(cs.Idx)+i)%2 == 0
		}
		c15Raw(cs, lens, bin, []int{0, 1, 64}[cs.Idx%3], false)
		c15Raw(cs, lens, bin, 0, true)
		cs.Count(true, "huge", lens)
		cs.C.Obs("sequences with a value of 1 MiB or more", 1)
	})
	// (1a') unset (nil) structs with a direct writer attached: the one STOP byte, like the copying path
	c.Stage("nil-structs-with-direct-writer", 4, true, func(cs *drv.Case) {
		var codec thrift.FastCodec
		name := "Base"
		if cs.Idx%2 == 0 {
			codec = (*base.Base)(nil)
		} else {
			codec, name = (*base.BaseResp)(nil), "BaseResp"
		}
		dwr := &doubles.DirectWriter{}
		var nw thrift.NocopyWriter = dwr
		if cs.Idx >= 2 {
			nw = doubles.DirectWriterV{P: dwr}
		}
		buf := []byte{0xB7, 0xB7, 0xB7}
		bl := codec.BLength()
		n := codec.FastWriteNocopy(buf, nw)
		cs.Desc = M{"struct": name, "blength": bl, "returned_offset": n, "pieces": len(dwr.Pieces)}
		if bl != 1 || n != 1 || buf[0] != 0 || buf[1] != 0xB7 || len(dwr.Pieces) != 0 {
			cs.Fail("nocopy-stream-differs", M{"struct": name, "receiver": "nil"}, M{"message": fmt.Sprintf("unset %s with a direct writer: BLength %d, wrote %d bytes (%x), %d direct pieces; the copying path writes the single STOP byte", name, bl, n, buf, len(dwr.Pieces))})
			return
		}
		cs.Count(true, "nilstruct", cs.Idx)
		cs.C.Obs("struct cases", 1)
	})
	// (1b) ApplicationException through FastWriteNocopy / FastWrite, inside a larger buffer
	c.Stage("exception", c.Pick(4000, 60000), false, c15ExceptionCase)

	// (2) Base / BaseResp through FastWriteNocopy with a recording direct writer
	c.Stage("structs", c.Pick(50000, 600000), false, c15StructCase)
}

// c15ExceptionCase: one ApplicationException through FastWriteNocopy with a recording direct writer (also run by C11,
// whose length clause covers that writer as well).
func c15ExceptionCase(cs *drv.Case) {
	r := cs.R
	msg := string(gen.Bytes(r, c15Lens[r.Intn(len(c15Lens))]))
	tid := gen.I32(r)
	e := thrift.NewApplicationException(tid, msg)
	want := append(ref.EncString(ref.EncFieldBegin(nil, ref.STRING, 1), msg), ref.EncI32(ref.EncFieldBegin(nil, ref.I32, 2), tid)...)
	want = append(want, 0)
	bl := e.BLength()
	pre, post := []int{0, 5}[r.Intn(2)], []int{0, 1, 64, 5000}[r.Intn(4)]
	whole := window(pre+bl+post, []int{0, 1, 100}[r.Intn(3)])
	for k := range whole {
		whole[k] = 0xB7
	}
	dwr := &doubles.DirectWriter{}
	off := e.FastWriteNocopy(whole[pre:], dwr)
	got, ok := dwr.Splice(whole[pre:], off)
	sum := off
	for _, p := range dwr.Pieces {
		sum += len(p)
	}
	cs.Desc = M{"msg_len": len(msg), "blength": bl, "bytes_before": pre, "bytes_after": post, "returned_offset": off, "pieces": len(dwr.Pieces), "remains": fmt.Sprint(dwr.Remains)}
	if bl != len(want) || sum != bl || !ok || !bytes.Equal(got, want) {
		cs.Fail("nocopy-stream-differs", M{"struct": "ApplicationException"}, M{"message": fmt.Sprintf("BLength %d, reference %d, offset+pieces %d, splice ok %v, stream equal %v", bl, len(want), sum, ok, ok && bytes.Equal(got, want))})
		return
	}
	for k := pre + bl; k < len(whole); k++ {
		if whole[k] != 0xB7 {
			cs.Fail("nocopy-wrote-outside", M{"struct": "ApplicationException"}, M{"message": "bytes after the advertised length were modified"})
			return
		}
	}
	b2 := make([]byte, bl)
	if n := e.FastWrite(b2); n != bl || !bytes.Equal(b2, want) {
		cs.Fail("nocopy-nil-writer-differs", M{"struct": "ApplicationException"}, M{"message": "FastWrite differs from the reference encoding"})
	}
	cs.Count(len(msg) >= 4096, "exc", len(msg), pre, post)
	cs.C.Obs("struct cases", 1)
}

// c15StructCase: one Base / BaseResp through FastWriteNocopy with a recording direct writer (also run by C11).
func c15StructCase(cs *drv.Case) {
	r := cs.R
	fl := func() string {
		switch r.Intn(5) {
		case 0, 1:
			return string(gen.Bytes(r, r.Intn(30)))
		case 2:
			// below the threshold on its own, above it together with its neighbour (a map key and its value)
			return string(gen.Bytes(r, []int{1500, 2047, 2048, 2049, 2500, 3000, 4000}[r.Intn(7)]))
		}
		return string(gen.Bytes(r, c15Lens[3+r.Intn(len(c15Lens)-3)]))
	}
	var extra map[string]string
	switch r.Intn(4) {
	case 1:
		extra = map[string]string{}
	case 2:
		extra = map[string]string{fl(): fl()}
	case 3:
		extra = map[string]string{}
		for i := 0; i < 2+r.Intn(3); i++ {
			extra[fl()+fmt.Sprint(i)] = fl()
		}
	}
	if r.Intn(40) == 0 {
		// dozens of large keys and values in one struct: as many direct pieces as there are large strings
		extra = map[string]string{}
		for i := 0; i < 33+r.Intn(12); i++ {
			extra[string(gen.Bytes(r, 4096+r.Intn(9)))+fmt.Sprint(i)] = string(gen.Bytes(r, 4096+r.Intn(9)))
		}
		cs.C.Obs("structs with more than 64 large strings", 1)
	}
	spare := []int{0, 1, 100}[r.Intn(3)]
	isBase := r.Intn(2) == 0
	var codec thrift.FastCodec
	var want []byte
	if isBase {
		p := &base.Base{LogID: fl(), Caller: fl(), Addr: fl(), Extra: extra}
		codec = p
		known := []kfield{{1, ref.STRING, ref.EncString(nil, p.LogID)}, {2, ref.STRING, ref.EncString(nil, p.Caller)}, {3, ref.STRING, ref.EncString(nil, p.Addr)}}
		if extra != nil {
			known = append(known, kfield{6, ref.MAP, encStrMap(extra)})
		}
		want, _ = buildStruct(r, known, 0, false)
	} else {
		p := &base.BaseResp{StatusMessage: fl(), StatusCode: gen.I32(r), Extra: extra}
		codec = p
		known := []kfield{{1, ref.STRING, ref.EncString(nil, p.StatusMessage)}, {2, ref.I32, ref.EncI32(nil, p.StatusCode)}}
		if extra != nil {
			known = append(known, kfield{3, ref.MAP, encStrMap(extra)})
		}
		want, _ = buildStruct(r, known, 0, false)
	}
	bl := codec.BLength()
	if bl != len(want) {
		cs.Fail("nocopy-length-accounting", M{"struct": isBase}, M{"message": fmt.Sprintf("BLength %d, reference encoding %d", bl, len(want))})
		return
	}
	// the copying path itself (maps with <= 1 entry have one encoding)
	cp := make([]byte, bl+8)
	if n := codec.(interface{ FastWrite([]byte) int }).FastWrite(cp); n != bl || (len(extra) <= 1 && !bytes.Equal(cp[:n], want)) {
		cs.Fail("copying-path-differs", M{"struct": isBase}, M{"message": fmt.Sprintf("FastWrite wrote %d bytes, BLength / no-copy length %d (empty non-nil map: %v)", n, bl, extra != nil && len(extra) == 0)})
		return
	}
	// the struct is a (possibly non-final) part of a larger buffer: pre bytes before, post bytes after
	pre, post := []int{0, 3, 100}[r.Intn(3)], []int{0, 0, 1, 50, 5000}[r.Intn(5)]
	whole := window(pre+bl+post, spare)
	for k := range whole {
		whole[k] = 0xB7
	}
	buf := whole[pre:]
	dwr := &doubles.DirectWriter{}
	var nw thrift.NocopyWriter = dwr
	if r.Intn(3) == 0 {
		nw = doubles.DirectWriterV{P: dwr}
	}
	off := codec.FastWriteNocopy(buf, nw)
	sum := off
	for _, p := range dwr.Pieces {
		sum += len(p)
	}
	cs.Desc = M{"is_base": isBase, "blength": bl, "spare_cap": spare, "bytes_before": pre, "bytes_after": post, "extra_entries": len(extra), "returned_offset": off, "pieces": len(dwr.Pieces), "remains": fmt.Sprint(dwr.Remains)}
	if sum != bl {
		cs.Fail("nocopy-length-accounting", M{"struct": isBase}, M{"message": fmt.Sprintf("returned offset %d + pieces = %d, BLength %d", off, sum, bl)})
		return
	}
	for k := 0; k < pre; k++ {
		if whole[k] != 0xB7 {
			cs.Fail("nocopy-wrote-outside", M{"struct": isBase}, M{"message": "bytes before the struct's buffer were modified"})
			return
		}
	}
	for k := pre + bl; k < len(whole); k++ {
		if whole[k] != 0xB7 {
			cs.Fail("nocopy-wrote-outside", M{"struct": isBase}, M{"message": fmt.Sprintf("byte %d after the struct's %d advertised bytes was modified", k-pre-bl, bl)})
			return
		}
	}
	got, ok := dwr.Splice(buf, off)
	if !ok {
		cs.Fail("nocopy-splice-position", M{"struct": isBase}, M{"message": "indicated splice positions are inconsistent"})
		return
	}
	if len(extra) <= 1 {
		if !bytes.Equal(got, want) {
			cs.Fail("nocopy-stream-differs", M{"struct": isBase}, M{"message": fmt.Sprintf("spliced stream differs from the reference encoding at %d", firstDiff(got, want))})
			return
		}
	} else {
		// several map entries: compare through decoding
		if isBase {
			q := base.NewBase()
			n, err := q.FastRead(got)
			o := codec.(*base.Base)
			if err != nil || n != bl || q.LogID != o.LogID || q.Caller != o.Caller || q.Addr != o.Addr || !strMapEq(q.Extra, o.Extra) {
				cs.Fail("nocopy-stream-differs", M{"struct": isBase}, M{"message": fmt.Sprintf("spliced stream does not decode to the value (n=%d err=%v)", n, err)})
				return
			}
		} else {
			q := base.NewBaseResp()
			n, err := q.FastRead(got)
			o := codec.(*base.BaseResp)
			if err != nil || n != bl || q.StatusMessage != o.StatusMessage || q.StatusCode != o.StatusCode || !strMapEq(q.Extra, o.Extra) {
				cs.Fail("nocopy-stream-differs", M{"struct": isBase}, M{"message": fmt.Sprintf("spliced stream does not decode to the value (n=%d err=%v)", n, err)})
				return
			}
		}
	}
	// nil writer: byte-identical to the copying path
	buf2 := window(bl, spare)
	if n := codec.FastWriteNocopy(buf2, nil); n != bl || (len(extra) <= 1 && !bytes.Equal(buf2, want)) {
		cs.Fail("nocopy-nil-writer-differs", M{"struct": isBase}, M{"message": fmt.Sprintf("FastWriteNocopy(nil) returned %d, BLength %d; bytes equal: %v", n, bl, bytes.Equal(buf2, want))})
		return
	}
	if m := thrift.FastMarshal(codec); len(m) != bl || (len(extra) <= 1 && !bytes.Equal(m, want)) {
		cs.Fail("nocopy-nil-writer-differs", M{"struct": isBase, "via": "FastMarshal"}, M{"message": "FastMarshal output differs from the reference encoding"})
		return
	}
	cs.Count(len(dwr.Pieces) >= 1, "struct", isBase, fmt.Sprint(codec), spare)
	cs.C.Obs("direct pieces spliced", int64(len(dwr.Pieces)))
	cs.C.Obs("struct cases", 1)
}
