package mon

import (
	"fmt"
	"unsafe"

	"github.com/cloudwego/gopkg/unsafex"

	"verifharness/drv"
	"verifharness/mon/legacyunsafex"
)

func init() { drv.Register("C20", monC20) }

type conv struct {
	name string
	b2s  func([]byte) string
	s2b  func(string) []byte
}

var convs = []conv{
	{"go1.21+", unsafex.BinaryToString, unsafex.StringToBinary},
	{"legacy(pre-go1.21 file)", legacyunsafex.BinaryToString, legacyunsafex.StringToBinary},
}

func c20Lens(thorough bool) []int {
	var ls []int
	for i := 0; i <= 300; i++ {
		ls = append(ls, i)
	}
	for _, l := range []int{511, 512, 513, 1023, 1024, 4095, 4096, 4097, 32768, 65536, 1 << 20} {
		ls = append(ls, l)
	}
	return ls
}

func monC20(c *drv.Ctx) {
	lens := c20Lens(c.Thorough())
	c.Stage("lengths", int64(len(lens)*len(convs)), true, func(cs *drv.Case) {
		cv := convs[cs.Idx%int64(len(convs))]
		l := lens[cs.Idx/int64(len(convs))]
		cs.Desc = M{"variant": cv.name, "len": l, "spare_capacities": "0,1,48", "substring_offsets": "0,1,16,19"}
		fail := func(check, msg string, a ...interface{}) {
			cs.Fail(check, M{"variant": cv.name}, M{"len": l, "message": fmt.Sprintf(msg, a...)})
		}
		// a mutable heap block: [pre | payload | canary]
		const pre, post = 16, 48
		blk := make([]byte, pre+l+post)
		for i := range blk {
			blk[i] = byte(i*13 + 5)
		}
		for _, spare := range []int{0, 1, post} {
			b := blk[pre : pre+l : pre+l+spare]
			s := cv.b2s(b)
			if len(s) != l || s != string(b) {
				fail("binary-to-string-content", "BinaryToString: len %d, content equal %v", len(s), s == string(b))
				return
			}
			if l > 0 && unsafe.StringData(s) != unsafe.SliceData(b) {
				fail("binary-to-string-copies", "BinaryToString does not share memory with its argument")
				return
			}
			if l > 0 {
				// sharing is observable: a write to the slice shows through the string
				old := b[0]
				b[0] ^= 0xFF
				if s[0] != b[0] {
					fail("binary-to-string-copies", "a write to the byte slice is not visible through the string")
					b[0] = old
					return
				}
				b[0] = old
			}
		}
		// string -> bytes: substrings at several offsets of a larger string backed by blk
		whole := unsafe.String(&blk[0], len(blk))
		for _, off := range []int{0, 1, pre, pre + 3} {
			if off+l > len(blk)-8 {
				continue
			}
			sub := whole[off : off+l]
			snap := append([]byte(nil), blk...)
			out := cv.s2b(sub)
			if len(out) != l || string(out) != sub {
				fail("string-to-binary-content", "StringToBinary: len %d, content equal %v", len(out), string(out) == sub)
				return
			}
			if cap(out) != l {
				fail("string-to-binary-capacity", "cap %d != len %d: appending could write into the string's memory", cap(out), l)
				return
			}
			if l > 0 && unsafe.SliceData(out) != unsafe.StringData(sub) {
				fail("string-to-binary-copies", "StringToBinary does not share memory with its argument")
				return
			}
			grown := append(out, 0xEE, 0xEE, 0xEE, 0xEE)
			_ = grown
			for i := range blk {
				if blk[i] != snap[i] {
					fail("string-to-binary-append-writes-string", "appending to the result modified the enclosing string's memory at offset %d", i-off)
					return
				}
			}
		}
		cs.Count(l >= 1, cv.name, l)
		cs.C.Obs("conversions checked", 1)
	})
	// nil / empty inputs
	c.Stage("empty", int64(2*len(convs)*4), true, func(cs *drv.Case) {
		cv := convs[cs.Idx%int64(len(convs))]
		k := cs.Idx / int64(len(convs))
		backing := make([]byte, 32)
		for i := range backing {
			backing[i] = 0x41
		}
		var inputs = [][]byte{nil, {}, make([]byte, 0, 16), backing[5:5], backing[32:32], backing[0:0:0], backing[31:31:32], backing[8:8:8]}
		b := inputs[k]
		func() {
			defer func() {
				if r := recover(); r != nil {
					cs.Fail("empty-input-panics", M{"variant": cv.name, "fn": "BinaryToString"}, M{"input": k, "panic": fmt.Sprint(r)})
				}
			}()
			if s := cv.b2s(b); s != "" || len(s) != 0 {
				cs.Fail("empty-input-nonempty-result", M{"variant": cv.name, "fn": "BinaryToString"}, M{"input": k, "len": len(s)})
			}
		}()
		strs := []string{"", string(backing[:0]), unsafe.String(&backing[3], 0), "abc"[1:1], "abc"[3:], string(backing)[32:], string(backing)[7:7], "" + ""}
		s := strs[k]
		func() {
			defer func() {
				if r := recover(); r != nil {
					cs.Fail("empty-input-panics", M{"variant": cv.name, "fn": "StringToBinary"}, M{"input": k, "panic": fmt.Sprint(r)})
				}
			}()
			out := cv.s2b(s)
			if len(out) != 0 || cap(out) != 0 {
				cs.Fail("empty-input-nonempty-result", M{"variant": cv.name, "fn": "StringToBinary"}, M{"input": k, "len": len(out), "cap": cap(out)})
			}
			out = append(out, 0x7A)
			for i := range backing {
				if backing[i] != 0x41 {
					cs.Fail("string-to-binary-append-writes-string", M{"variant": cv.name}, M{"input": k, "offset": i})
					break
				}
			}
		}()
		cs.Count(true, cv.name, "empty", k)
		cs.C.Obs("empty/nil inputs checked", 1)
	})
}
