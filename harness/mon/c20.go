package mon

import (
	"fmt"
	"runtime"
	"unsafe"

	"github.com/cloudwego/gopkg/unsafex"

	"verifharness/drv"
	"verifharness/mon/legacyunsafex"
	"verifharness/san"
)

func init() { drv.Register("C20", monC20) }

type conv struct {
	name string
	b2s  func([]byte) string
	s2b  func(string) []byte
}

// c20Raw is a named byte-slice type (like json.RawMessage): assignable to []byte, so it is a legal argument.
type c20Raw []byte

var convs = []conv{
	// (called, not taken as function values: a conversion that became generic over its argument type still builds)
	{"go1.21+", func(b []byte) string { return unsafex.BinaryToString(b) }, func(s string) []byte { return unsafex.StringToBinary(s) }},
	{"legacy(pre-go1.21 file)", func(b []byte) string { return legacyunsafex.BinaryToString(b) }, func(s string) []byte { return legacyunsafex.StringToBinary(s) }},
	{"go1.21+, argument of a named slice type", func(b []byte) string { return unsafex.BinaryToString(c20Raw(b)) }, func(s string) []byte { return unsafex.StringToBinary(s) }},
}

func c20Lens(thorough bool) []int {
	var ls []int
	for i := 0; i <= 300; i++ {
		ls = append(ls, i)
	}
	for _, l := range []int{511, 512, 513, 1023, 1024, 4095, 4096, 4097, 32768, 32769, 40001, 65536, 70001, 131071, 131072, 131077, 204803, 1 << 20, 1<<20 + 4099} {
		ls = append(ls, l)
	}
	return ls
}

var c20Sink []byte

//go:noinline
func c20GrowStack(n int, pad [256]byte) byte {
	if n == 0 {
		return pad[0]
	}
	pad[n%256]++
	return c20GrowStack(n-1, pad) + pad[1]
}

// c20StackString converts a short string that the compiler may keep on the goroutine stack, keeps
// the result on the heap, forces the stack to move and be overwritten, and looks at the result again.
// The conversion is called directly (not through a func value) so that escape analysis sees it.
//
//go:noinline
func c20ConvLegacy(seed byte) (want string) {
	var arr [24]byte
	for i := range arr {
		arr[i] = seed + byte(i)*3
	}
	s := string(arr[:20])
	want = string(append([]byte(nil), s...))
	c20Sink = legacyunsafex.StringToBinary(s)
	return want
}

//go:noinline
func c20ConvNew(seed byte) (want string) {
	var arr [24]byte
	for i := range arr {
		arr[i] = seed + byte(i)*3
	}
	s := string(arr[:20]) // short and, as far as this function is concerned, non-escaping
	want = string(append([]byte(nil), s...))
	c20Sink = unsafex.StringToBinary(s)
	return want
}

//go:noinline
func c20StackString(legacy bool, seed byte) (got, want string) {
	// (one function per variant, so that neither variant's code decides where the other's string lives)
	if legacy {
		want = c20ConvLegacy(seed)
	} else {
		want = c20ConvNew(seed)
	}
	if c20Scribble(int(seed)%6) == 0 {
		return "", want
	}
	if got = string(c20Sink); got != want {
		return got, want
	}
	var pad [256]byte
	c20GrowStack(3000, pad) // grows (moves) the stack and overwrites the old frames
	runtime.GC()
	return string(c20Sink), want
}

// c20MakeSole builds a fresh heap object, converts it, stores only the converted result and returns a copy of
// the content; when it returns, the original slice/string header is dead.
//
//go:noinline
func c20MakeSole(cv conv, dir int64, l int, seed byte, keepS *string, keepB *[]byte) string {
	b := make([]byte, l)
	for i := range b {
		b[i] = seed + byte(i)*7
	}
	want := string(b)
	if dir == 0 {
		*keepS = cv.b2s(b)
	} else {
		s := string(b) // a second heap object, referenced by s only
		*keepB = cv.s2b(s)
	}
	return want
}

var c20SinkS string

// c20StackArray converts a slice of a local array (which stays on the goroutine stack unless the conversion
// makes it escape), keeps only the resulting string in a global, then leaves the frame, grows the stack
// and overwrites the old frames before the string is looked at again.
//
//go:noinline
func c20StackArray(legacy bool, seed byte) (want string) {
	// one function per variant: whether the array escapes is decided per function, and must not be
	// decided by the other variant's code
	if legacy {
		return c20StackArrayLegacy(seed)
	}
	return c20StackArrayNew(seed)
}

//go:noinline
func c20StackArrayNew(seed byte) (want string) {
	var arr [40]byte
	for i := range arr {
		arr[i] = seed + byte(i)*5
	}
	want = string(append([]byte(nil), arr[:32]...))
	if seed&4 != 0 {
		src := make([]byte, 32) // a constant-size make that does not escape is a stack object as well
		copy(src, arr[:32])
		c20SinkS = unsafex.BinaryToString(src)
		return want
	}
	c20SinkS = unsafex.BinaryToString(arr[:32])
	return want
}

//go:noinline
func c20StackArrayLegacy(seed byte) (want string) {
	var arr [40]byte
	for i := range arr {
		arr[i] = seed + byte(i)*5
	}
	want = string(append([]byte(nil), arr[:32]...))
	if seed&4 != 0 {
		src := make([]byte, 32)
		copy(src, arr[:32])
		c20SinkS = legacyunsafex.BinaryToString(src)
		return want
	}
	c20SinkS = legacyunsafex.BinaryToString(arr[:32])
	return want
}

// c20Scribble is unrelated work of the same goroutine that only writes its own locals (a few frames deep:
// it reuses the stack area of frames that have just been left, without growing the stack).
//
//go:noinline
func c20Scribble(depth int) int {
	var scratch [192]byte
	for i := range scratch {
		scratch[i] = byte(0xE0 | depth&0xf)
	}
	n := 0
	if depth > 0 {
		n = c20Scribble(depth - 1)
	}
	for _, c := range scratch {
		n += int(c)
	}
	return n
}

//go:noinline
func c20StackArrayOuter(legacy bool, seed byte) (got, want string) {
	want = c20StackArray(legacy, seed)
	if c20Scribble(int(seed)%6) == 0 { // the frame of c20StackArray is dead: reuse its stack area
		return "", want
	}
	got = string(append([]byte(nil), c20SinkS...))
	if got != want {
		return got, want
	}
	var pad [256]byte
	c20GrowStack(3000, pad) // and move the stack
	runtime.GC()
	return string(append([]byte(nil), c20SinkS...)), want
}

func monC20(c *drv.Ctx) {
	c.Stage("stack-strings", 64, true, func(cs *drv.Case) {
		legacy := cs.Idx%2 == 1
		done := make(chan [2]string, 1)
		go func() { // a fresh goroutine starts with a small stack, so the recursion really has to grow it
			g, w := c20StackString(legacy, byte(cs.Idx))
			done <- [2]string{g, w}
		}()
		r := <-done
		cs.Desc = M{"variant": convs[cs.Idx%2].name, "string_len": 20}
		if r[0] != r[1] {
			cs.Fail("string-to-binary-stale", M{"variant": convs[cs.Idx%2].name}, M{"got": fmt.Sprintf("%q", r[0]), "want": fmt.Sprintf("%q", r[1]), "message": "the bytes obtained from a short (stack-allocated) string went stale after the stack moved: the result no longer shares memory with a live string"})
		}
		cs.Count(true, "stack", cs.Idx)
		cs.C.Obs("stack-string cases", 1)
	})

	c.Stage("stack-arrays", 64, true, func(cs *drv.Case) {
		legacy := cs.Idx%2 == 1
		done := make(chan [2]string, 1)
		go func() {
			g, w := c20StackArrayOuter(legacy, byte(cs.Idx))
			done <- [2]string{g, w}
		}()
		r := <-done
		c20SinkS = ""
		cs.Desc = M{"variant": convs[cs.Idx%2].name, "array_len": 32}
		if r[0] != r[1] {
			cs.Fail("binary-to-string-stale", M{"variant": convs[cs.Idx%2].name}, M{"got": fmt.Sprintf("%q", r[0]), "want": fmt.Sprintf("%q", r[1]), "message": "the string obtained from a slice of a local array went stale after its frame was left and the stack was reused: the result does not keep its argument's memory alive"})
		}
		cs.Count(true, "stackarr", cs.Idx)
		cs.C.Obs("stack-array cases", 1)
	})

	// the result of a conversion is the ONLY reference that is kept: the collector must see it as one (a result
	// forged from an integer address would leave the memory collectable; it is then reused - or, in the gcstress
	// flavour, overwritten by the collector itself - under the holder)
	soleLens := []int{1, 8, 24, 100, 512, 4096, 40000}
	c.Stage("sole-reference", int64(len(soleLens)*len(convs)*2), true, func(cs *drv.Case) {
		i := cs.Idx
		cv := convs[i%int64(len(convs))]
		dir := (i / int64(len(convs))) % 2
		l := soleLens[i/int64(2*len(convs))]
		cs.Desc = M{"variant": cv.name, "len": l, "direction": []string{"BinaryToString", "StringToBinary"}[dir]}
		var keepS string
		var keepB []byte
		want := c20MakeSole(cv, dir, l, byte(i), &keepS, &keepB)
		// collect, then refill the heap with objects of the same size
		var junk [][]byte
		for round := 0; round < 3; round++ {
			runtime.GC()
			for k := 0; k < 200; k++ {
				j := make([]byte, l)
				for x := range j {
					j[x] = 0xCD
				}
				junk = append(junk, j)
			}
		}
		got := keepS
		if dir == 1 {
			got = string(keepB)
		}
		if got != want {
			cs.Fail("conversion-result-not-a-reference", M{"variant": cv.name, "direction": cs.Desc["direction"]}, M{"len": l, "first_diff": firstDiff([]byte(got), []byte(want)),
				"message": "the only reference to the bytes was the conversion result, and their content changed after garbage collections: the collector does not see the result as a reference"})
		}
		runtime.KeepAlive(junk)
		cs.Count(true, "sole", i)
		cs.C.Obs("sole-reference cases", 1)
	})

	lens := c20Lens(c.Thorough())
	c.Stage("lengths", int64(len(lens)*len(convs)), true, func(cs *drv.Case) {
		cv := convs[cs.Idx%int64(len(convs))]
		l := lens[cs.Idx/int64(len(convs))]
		cs.Desc = M{"variant": cv.name, "len": l, "spare_capacities": "0,1,48", "substring_offsets": "0,1,16,19"}
		fail := func(check, msg string, a ...interface{}) {
			cs.Fail(check, M{"variant": cv.name}, M{"len": l, "message": fmt.Sprintf(msg, a...)})
		}
		// a mutable heap block: [pre | payload | canary]
		const pre, post = 16, 48
		blk := make([]byte, pre+l+post)
		for i := range blk {
			blk[i] = byte(i*13 + 5)
		}
		for _, spare := range []int{0, 1, post, -1} {
			var b []byte
			if spare >= 0 {
				b = blk[pre : pre+l : pre+l+spare]
			} else {
				// a small window at the start of a huge buffer (a key sliced out of a big read buffer)
				if l > 64 {
					continue
				}
				huge := make([]byte, 1<<20)
				copy(huge, blk[pre:pre+l])
				b = huge[:l]
			}
			s := cv.b2s(b)
			if len(s) != l || s != string(b) {
				fail("binary-to-string-content", "BinaryToString: len %d, content equal %v", len(s), s == string(b))
				return
			}
			if l > 0 && unsafe.StringData(s) != unsafe.SliceData(b) {
				fail("binary-to-string-copies", "BinaryToString does not share memory with its argument")
				return
			}
			if l > 0 {
				// sharing is observable: a write to the slice shows through the string
				old := b[0]
				b[0] ^= 0xFF
				if s[0] != b[0] {
					fail("binary-to-string-copies", "a write to the byte slice is not visible through the string")
					b[0] = old
					return
				}
				b[0] = old
			}
		}
		// string -> bytes: substrings at several offsets of a larger string backed by blk
		whole := unsafe.String(&blk[0], len(blk))
		for _, off := range []int{0, 1, pre, pre + 3} {
			if off+l > len(blk)-8 {
				continue
			}
			sub := whole[off : off+l]
			snap := append([]byte(nil), blk...)
			out := cv.s2b(sub)
			if len(out) != l || string(out) != sub {
				fail("string-to-binary-content", "StringToBinary: len %d, content equal %v", len(out), string(out) == sub)
				return
			}
			if cap(out) != l {
				fail("string-to-binary-capacity", "cap %d != len %d: appending could write into the string's memory", cap(out), l)
				return
			}
			if l > 0 && unsafe.SliceData(out) != unsafe.StringData(sub) {
				fail("string-to-binary-copies", "StringToBinary does not share memory with its argument")
				return
			}
			grown := append(out, 0xEE, 0xEE, 0xEE, 0xEE)
			_ = grown
			for i := range blk {
				if blk[i] != snap[i] {
					fail("string-to-binary-append-writes-string", "appending to the result modified the enclosing string's memory at offset %d", i-off)
					return
				}
			}
		}
		cs.Count(l >= 1, cv.name, l)
		cs.C.Obs("conversions checked", 1)
	})
	// strings and slices beyond 1 GiB (untouched zero pages: the memory is reserved, not used)
	if !c.Slow() && c.Flavour != "asan" {
		bigSizes := []int{1<<30 + 4096, 1<<31 + 4096, 1<<32 + 4096}
		c.Stage("over-1GiB", int64(len(convs)*len(bigSizes)), true, func(cs *drv.Case) {
			cv := convs[cs.Idx%int64(len(convs))]
			n := bigSizes[cs.Idx/int64(len(convs))]
			big, free := san.Virtual(n)
			defer free()
			big[0], big[n-1], big[1<<30] = 'a', 'z', 'm'
			cs.Desc = M{"variant": cv.name, "len": n}
			s := cv.b2s(big)
			if len(s) != n || s[0] != 'a' || s[n-1] != 'z' || unsafe.StringData(s) != unsafe.SliceData(big) {
				cs.Fail("binary-to-string-content", M{"variant": cv.name, "size": ">1GiB"}, M{"len": len(s)})
				return
			}
			for _, sub := range []string{s, s[1:], s[:1<<30+1], s[4095:], s[:n-4095]} {
				out := cv.s2b(sub)
				if len(out) != len(sub) || cap(out) != len(sub) || unsafe.SliceData(out) != unsafe.StringData(sub) || out[len(out)-1] != sub[len(sub)-1] {
					cs.Fail("string-to-binary-content", M{"variant": cv.name, "size": ">1GiB"}, M{"len": len(out), "cap": cap(out), "want": len(sub)})
					return
				}
			}
			cs.Count(true, cv.name, "1gib")
			cs.C.Obs("conversions beyond 1 GiB", 1)
		})
	}

	// nil / empty inputs
	c.Stage("empty", int64(2*len(convs)*4), true, func(cs *drv.Case) {
		cv := convs[cs.Idx%int64(len(convs))]
		k := cs.Idx / int64(len(convs))
		backing := make([]byte, 32)
		for i := range backing {
			backing[i] = 0x41
		}
		var inputs = [][]byte{nil, {}, make([]byte, 0, 16), backing[5:5], backing[32:32], backing[0:0:0], backing[31:31:32], backing[8:8:8]}
		b := inputs[k]
		func() {
			defer func() {
				if r := recover(); r != nil {
					cs.Fail("empty-input-panics", M{"variant": cv.name, "fn": "BinaryToString"}, M{"input": k, "panic": fmt.Sprint(r)})
				}
			}()
			if s := cv.b2s(b); s != "" || len(s) != 0 {
				cs.Fail("empty-input-nonempty-result", M{"variant": cv.name, "fn": "BinaryToString"}, M{"input": k, "len": len(s)})
			}
		}()
		strs := []string{"", string(backing[:0]), unsafe.String(&backing[3], 0), "abc"[1:1], "abc"[3:], string(backing)[32:], string(backing)[7:7], "" + ""}
		s := strs[k]
		func() {
			defer func() {
				if r := recover(); r != nil {
					cs.Fail("empty-input-panics", M{"variant": cv.name, "fn": "StringToBinary"}, M{"input": k, "panic": fmt.Sprint(r)})
				}
			}()
			out := cv.s2b(s)
			if len(out) != 0 || cap(out) != 0 {
				cs.Fail("empty-input-nonempty-result", M{"variant": cv.name, "fn": "StringToBinary"}, M{"input": k, "len": len(out), "cap": cap(out)})
			}
			out = append(out, 0x7A)
			for i := range backing {
				if backing[i] != 0x41 {
					cs.Fail("string-to-binary-append-writes-string", M{"variant": cv.name}, M{"input": k, "offset": i})
					break
				}
			}
		}()
		cs.Count(true, cv.name, "empty", k)
		cs.C.Obs("empty/nil inputs checked", 1)
	})
}
