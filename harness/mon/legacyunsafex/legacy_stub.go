// Package legacyunsafex is a placeholder: every check build replaces this file (go build -overlay)
// by a copy of /repo/unsafex/unsafex_go100.go with its build constraint removed, regenerated
// from the tree under test at check time.
package legacyunsafex

func BinaryToString(b []byte) string { panic("legacyunsafex: stub - build through run.sh") }
func StringToBinary(s string) []byte { panic("legacyunsafex: stub - build through run.sh") }
