package mon

import (
	"fmt"
	"math/rand"
	"runtime"
	"sort"
	"unsafe"

	"github.com/cloudwego/gopkg/container/strmap"

	"verifharness/drv"
	"verifharness/gen"
	"verifharness/san"
)

func init() { drv.Register("C07", monC07) }

// c07Val is a value type of more than 64 bytes (an implementation may treat large items differently from ints).
type c07Val struct {
	A int64
	B [3]byte
	C [9]int64
}

var c07Sizes = []int{0, 1, 2, 3, 5, 6, 7, 8, 12, 13, 17, 23, 24, 31, 46, 61, 96, 100, 191, 1000}

// genKeys builds n distinct keys with adversarial shapes.
func genKeys(r *rand.Rand, n int) []string {
	set := map[string]bool{}
	keys := make([]string, 0, n)
	add := func(k string) {
		if len(keys) < n && !set[k] {
			set[k] = true
			keys = append(keys, k)
		}
	}
	style := r.Intn(6)
	if n > 0 && r.Intn(3) == 0 {
		add("")
	}
	base := string(gen.Bytes(r, 1+r.Intn(12)))
	for guard := 0; len(keys) < n && guard < 20*n+100; guard++ {
		switch style {
		case 0: // random short binary keys of mixed lengths
			add(string(gen.Bytes(r, r.Intn(9))))
		case 1: // every proper prefix of a long key, then extensions
			long := string(gen.Bytes(r, 4+r.Intn(40)))
			for i := 0; i <= len(long); i++ {
				add(long[:i])
			}
			add(long + string(rune('a'+r.Intn(26))))
		case 2: // shared prefix, numeric suffix
			add(fmt.Sprintf("%s-%d", base, r.Intn(10*n+10)))
		case 3: // shared suffix, near-duplicates differing in one byte
			k := []byte(base + "/common-suffix")
			k[r.Intn(len(k))] ^= byte(1 << uint(r.Intn(8)))
			add(string(k))
			add(string(k) + "\x00")
		case 4: // same length everywhere
			b := make([]byte, 6)
			r.Read(b)
			add(string(b))
		default: // mixed lengths incl. long
			add(string(gen.Bytes(r, r.Intn(3)*r.Intn(60)+r.Intn(5))))
		}
	}
	for i := 0; len(keys) < n; i++ {
		add(fmt.Sprintf("fill-%d-%d", i, r.Intn(1<<30)))
	}
	return keys
}

func probesFor(r *rand.Rand, keys []string) []string {
	var ps []string
	lim := len(keys)
	if lim > 400 {
		lim = 400
	}
	for i := 0; i < lim; i++ {
		k := keys[i]
		if lim < len(keys) {
			k = keys[r.Intn(len(keys))]
		}
		ps = append(ps, k, k+"x", k+"\x00", k+"\x00\x00\x00")
		if len(k) > 8 {
			ps = append(ps, k[:8]) // the first machine word of a longer key
		}
		if len(k) > 0 {
			ps = append(ps, k[:len(k)-1], k[1:])
			b := []byte(k)
			b[r.Intn(len(b))] ^= 0x01
			ps = append(ps, string(b))
		}
	}
	for i := 0; i < 20; i++ {
		ps = append(ps, string(gen.Bytes(r, r.Intn(10))))
	}
	ps = append(ps, "", "\x00", "a")
	return ps
}

// c07CheckStrMap compares a loaded StrMap[int] with the Go map.
func c07CheckInt(cs *drv.Case, m *strmap.StrMap[int], want map[string]int, probes []string, phase string) bool {
	fail := func(check, msg string, a ...interface{}) bool {
		cs.Fail(check, M{"map": "StrMap[int]"}, M{"phase": phase, "n": len(want), "message": fmt.Sprintf(msg, a...)})
		return false
	}
	if m.Len() != len(want) {
		return fail("strmap-len", "Len() = %d, want %d", m.Len(), len(want))
	}
	if len(want) <= 300 && cs.R.Intn(2) == 0 {
		// printing a map is a read: it must not change what the map answers afterwards
		if s := m.String(); len(want) > 0 && len(s) == 0 {
			return fail("strmap-string", "String() of a loaded map is empty")
		}
		_ = fmt.Sprint(m)
		cs.C.Obs("maps printed before being queried", 1)
	}
	for k, v := range want {
		g, ok := m.Get(k)
		if !ok || g != v {
			return fail("strmap-loaded-key-missing", "Get(%q) = (%v, %v), want (%v, true)", k, g, ok, v)
		}
	}
	for _, p := range probes {
		wv, wok := want[p]
		g, ok := m.Get(p)
		if ok != wok || (ok && g != wv) {
			return fail("strmap-probe", "Get(%q) = (%v, %v), Go map says (%v, %v)", p, g, ok, wv, wok)
		}
	}
	seen := map[string]bool{}
	for i := 0; i < m.Len(); i++ {
		k, v := m.Item(i)
		wv, ok := want[k]
		if !ok || wv != v || seen[k] {
			return fail("strmap-item-enumeration", "Item(%d) = (%q, %v): not a fresh loaded pair", i, k, v)
		}
		seen[string(append([]byte(nil), k...))] = true
	}
	if len(seen) != len(want) {
		return fail("strmap-item-enumeration", "enumeration yields %d distinct keys, want %d", len(seen), len(want))
	}
	cs.C.Obs("map queries compared", int64(len(want)+len(probes)))
	return true
}

func c07CheckS2S(cs *drv.Case, m *strmap.Str2Str, want map[string]string, probes []string, phase string) bool {
	fail := func(check, msg string, a ...interface{}) bool {
		cs.Fail(check, M{"map": "Str2Str"}, M{"phase": phase, "n": len(want), "message": fmt.Sprintf(msg, a...)})
		return false
	}
	if m.Len() != len(want) {
		return fail("strmap-len", "Len() = %d, want %d", m.Len(), len(want))
	}
	for k, v := range want {
		g, ok := m.Get(k)
		if !ok || g != v {
			return fail("strmap-loaded-key-missing", "Get(%q) = (%q, %v), want (%q, true)", k, g, ok, v)
		}
	}
	for _, p := range probes {
		wv, wok := want[p]
		g, ok := m.Get(p)
		if ok != wok || (ok && g != wv) {
			return fail("strmap-probe", "Get(%q) = (%q, %v), Go map says (%q, %v)", p, g, ok, wv, wok)
		}
	}
	cs.C.Obs("map queries compared", int64(len(want)+len(probes)))
	return true
}

func monC07(c *drv.Ctx) {
	// hooks flavour (library built with -tags verif): collision chains far longer than random seeds ever produce;
	// the keys are crafted with the map's own hash seed, read through the library's verif-tagged accessor
	if c.Flavour == "hooks" {
		if c07Hooks {
			c.Stage("long-collision-chains", c.Pick(2000, 40000), false, c07LongChain)
		}
		return
	}
	// (0) never-loaded and empty maps
	c.Stage("never-loaded", 13, true, func(cs *drv.Case) {
		probes := []string{"", "x", "\x00", "some longer key", string(gen.Bytes(cs.R, 100))}
		switch cs.Idx {
		case 8: // the zero value of Str2Str (its loaders create the inner parts lazily, so it is a usable map)
			var m strmap.Str2Str
			for _, p := range probes {
				if _, ok := m.Get(p); ok {
					cs.Fail("strmap-never-loaded", M{"map": "zero-value Str2Str"}, M{"message": "a key is reported present"})
				}
			}
			if m.Len() != 0 {
				cs.Fail("strmap-len", M{"map": "zero-value Str2Str"}, M{"len": m.Len()})
			}
			if err := m.LoadFromMap(map[string]string{"k": "v"}); err != nil {
				cs.Fail("strmap-load-error", M{"map": "zero-value Str2Str"}, M{"err": errString(err)})
			} else if v, ok := m.Get("k"); !ok || v != "v" {
				cs.Fail("strmap-loaded-key-missing", M{"map": "zero-value Str2Str"}, nil)
			}
		case 9: // a pointer to a zero-value StrMap that is never loaded
			var m strmap.StrMap[int]
			for _, p := range probes {
				if _, ok := m.Get(p); ok {
					cs.Fail("strmap-never-loaded", M{"map": "zero-value StrMap"}, M{"message": "a key is reported present"})
				}
			}
			if m.Len() != 0 {
				cs.Fail("strmap-len", M{"map": "zero-value StrMap"}, M{"len": m.Len()})
			}
		case 10: // a zero-value StrMap loaded with nothing is an empty map
			var m strmap.StrMap[int]
			if err := m.LoadFromSlice(nil, nil); err != nil {
				cs.Fail("strmap-load-error", M{"map": "zero-value StrMap"}, M{"err": errString(err)})
			}
			c07CheckInt(cs, &m, map[string]int{}, probes, "zero-value StrMap loaded with nothing")
		case 11: // a zero-value StrMap loaded from a map, then reloaded
			var m strmap.StrMap[int]
			want := map[string]int{"a": 1, "": 2, "abc": 3}
			if err := m.LoadFromMap(want); err != nil {
				cs.Fail("strmap-load-error", M{"map": "zero-value StrMap"}, M{"err": errString(err)})
			}
			c07CheckInt(cs, &m, want, append(probes, "a", "ab", "abc"), "zero-value StrMap loaded from a map")
			want2 := map[string]int{"z": 26}
			m.LoadFromMap(want2)
			c07CheckInt(cs, &m, want2, append(probes, "a", "z"), "zero-value StrMap reloaded")
		case 12: // a zero-value StrMap[struct] loaded from slices
			var m strmap.StrMap[c07Val]
			if err := m.LoadFromSlice([]string{"k", "kk"}, []c07Val{{}, {}}); err != nil {
				cs.Fail("strmap-load-error", M{"map": "zero-value StrMap[struct]"}, M{"err": errString(err)})
			}
			if _, ok := m.Get("k"); !ok || m.Len() != 2 {
				cs.Fail("strmap-loaded-key-missing", M{"map": "zero-value StrMap[struct]"}, M{"len": m.Len()})
			}
			if _, ok := m.Get("kkk"); ok {
				cs.Fail("strmap-absent-key-present", M{"map": "zero-value StrMap[struct]"}, nil)
			}
		case 0:
			m := strmap.New[int]()
			for _, p := range probes {
				if _, ok := m.Get(p); ok {
					cs.Fail("strmap-never-loaded", nil, M{"message": "never-loaded StrMap reports a key present"})
				}
			}
			if m.Len() != 0 {
				cs.Fail("strmap-len", nil, M{"message": "never-loaded Len != 0"})
			}
		case 1:
			m := strmap.NewStr2Str()
			for _, p := range probes {
				if _, ok := m.Get(p); ok {
					cs.Fail("strmap-never-loaded", nil, M{"message": "never-loaded Str2Str reports a key present"})
				}
			}
			if m.Len() != 0 {
				cs.Fail("strmap-len", nil, M{"message": "never-loaded Len != 0"})
			}
		case 2:
			m := strmap.NewFromMap(map[string]int{})
			c07CheckInt(cs, m, map[string]int{}, probes, "empty NewFromMap")
		case 3:
			m := strmap.NewFromSlice([]string{}, []int{})
			c07CheckInt(cs, m, map[string]int{}, probes, "empty NewFromSlice")
		case 4:
			m := strmap.NewStr2StrFromMap(map[string]string{})
			c07CheckS2S(cs, m, map[string]string{}, probes, "empty NewStr2StrFromMap")
		case 5:
			m := strmap.NewStr2StrFromSlice(nil, nil)
			c07CheckS2S(cs, m, map[string]string{}, probes, "empty NewStr2StrFromSlice")
		case 6:
			m := strmap.New[c07Val]()
			if _, ok := m.Get("k"); ok {
				cs.Fail("strmap-never-loaded", nil, M{"message": "never-loaded StrMap[struct] reports a key present"})
			}
		case 7:
			// load then reload with nothing
			m := strmap.NewFromMap(map[string]int{"a": 1, "b": 2})
			m.LoadFromMap(nil)
			c07CheckInt(cs, m, map[string]int{}, append(probes, "a", "b"), "reload-to-empty")
		}
		cs.Count(true, "neverloaded", cs.Idx)
		cs.C.Obs("never-loaded/empty cases", 1)
	})

	// (1) load cycles: one instance, several reloads growing and shrinking, failed loads in between
	c.Stage("load-cycles", c.Pick(20000, 300000), false, func(cs *drv.Case) {
		r := cs.R
		im := strmap.New[int]()
		sm := strmap.NewStr2Str()
		vm := strmap.New[c07Val]()
		rounds := 1 + r.Intn(4)
		shape := ""
		var prevI map[string]int
		var prevS map[string]string
		var prevProbes []string
		for round := 0; round < rounds; round++ {
			n := c07Sizes[r.Intn(len(c07Sizes))]
			if r.Intn(40) == 0 && cs.C.Thorough() {
				n = 10000
			}
			keys := genKeys(r, n)
			shape += fmt.Sprintf("%d,", n)
			wi := map[string]int{}
			ws := map[string]string{}
			wv := map[string]c07Val{}
			vi := make([]int, n)
			vs := make([]string, n)
			vv := make([]c07Val, n)
			for i, k := range keys {
				vi[i] = r.Intn(1 << 30)
				vs[i] = string(gen.Bytes(r, r.Intn(20)))
				vv[i] = c07Val{A: int64(vi[i]) * 3, B: [3]byte{byte(i), byte(i >> 8), 7}, C: [9]int64{int64(i), 8: int64(vi[i])}}
				wi[k], ws[k], wv[k] = vi[i], vs[i], vv[i]
			}
			var err1, err2, err3 error
			if r.Intn(2) == 0 {
				err1 = im.LoadFromSlice(keys, vi)
				err2 = sm.LoadFromSlice(keys, vs)
				err3 = vm.LoadFromSlice(keys, vv)
			} else {
				err1 = im.LoadFromMap(wi)
				err2 = sm.LoadFromMap(ws)
				err3 = vm.LoadFromMap(wv)
			}
			if err1 != nil || err2 != nil || err3 != nil {
				cs.Fail("strmap-load-error", nil, M{"round": round, "n": n, "errors": fmt.Sprint(err1, err2, err3)})
				return
			}
			// the maps must not keep referring to the caller's slices: reuse them as scratch right away
			for i := range vi {
				vi[i] = -1
				vs[i] = "SCRIBBLED"
				vv[i] = c07Val{A: -1}
			}
			kcopy := append([]string(nil), keys...)
			for i := range keys {
				keys[i] = "scribbled-key"
			}
			keys = kcopy
			probes := probesFor(r, keys)
			// keys of the previous round must be gone unless reloaded
			probes = append(probes, prevProbes...)
			phase := fmt.Sprintf("round %d of sizes %s", round, shape)
			cs.Desc = M{"sizes": shape, "round": round, "sample_keys": fmt.Sprintf("%q", keys[:minInt(len(keys), 6)])}
			if !c07CheckInt(cs, im, wi, probes, phase) || !c07CheckS2S(cs, sm, ws, probes, phase) {
				return
			}
			for k, v := range wv {
				if g, ok := vm.Get(k); !ok || g != v {
					cs.Fail("strmap-loaded-key-missing", M{"map": "StrMap[struct]"}, M{"phase": phase, "message": fmt.Sprintf("Get(%q) = (%v, %v), want %v", k, g, ok, v)})
					return
				}
			}
			// a failed load (length mismatch) changes nothing
			if r.Intn(2) == 0 {
				bk := genKeys(r, 1+r.Intn(8))
				e1 := im.LoadFromSlice(bk, make([]int, len(bk)+1))
				bv := make([]string, len(bk)-1+2*r.Intn(2))
				for i := range bv {
					bv[i] = "REJECTED-VALUE-" + fmt.Sprint(i)
				}
				e2 := sm.LoadFromSlice(bk, bv)
				if e1 == nil || e2 == nil {
					cs.Fail("strmap-mismatched-load-accepted", nil, M{"phase": phase, "errors": fmt.Sprint(e1, e2)})
					return
				}
				if !c07CheckInt(cs, im, wi, append(probes, bk...), phase+" after failed load") || !c07CheckS2S(cs, sm, ws, append(probes, bk...), phase+" after failed load") {
					return
				}
				cs.C.Obs("failed loads checked", 1)
			}
			// a load with one key twice is outside the property's domain (distinct keys): what it stores is not
			// judged - but if it is refused, it is a failed load like any other and changes nothing. (The next
			// round reloads both maps, so an accepted one does not outlive this round.)
			if r.Intn(3) == 0 {
				dk := genKeys(r, 2+r.Intn(6))
				dk = append(dk, dk[r.Intn(len(dk))])
				r.Shuffle(len(dk), func(a, b int) { dk[a], dk[b] = dk[b], dk[a] })
				di := make([]int, len(dk))
				ds := make([]string, len(dk))
				for i := range dk {
					di[i] = -7 - i
					ds[i] = "VALUE-OF-A-REFUSED-LOAD-" + fmt.Sprint(i)
				}
				e1 := im.LoadFromSlice(dk, di)
				e2 := sm.LoadFromSlice(dk, ds)
				if e1 != nil {
					if !c07CheckInt(cs, im, wi, append(probes, dk...), phase+" after a load that was refused for a repeated key") {
						return
					}
					cs.C.Obs("failed loads checked", 1)
				}
				if e2 != nil {
					if !c07CheckS2S(cs, sm, ws, append(probes, dk...), phase+" after a load that was refused for a repeated key") {
						return
					}
					cs.C.Obs("failed loads checked", 1)
				}
				if e1 == nil || e2 == nil {
					cs.C.DontCare("load-with-a-repeated-key-accepted")
				}
			}
			prevI, prevS = wi, ws
			prevProbes = keys[:minInt(len(keys), 50)]
		}
		_, _ = prevI, prevS
		sizes := []int{}
		_ = sizes
		cs.Count(true, shape, cs.Idx)
		cs.C.Obs("load cycles", int64(rounds))
		if cs.WantSample() && cs.Idx%131 == 1 {
			cs.Sample(cs.Desc)
		}
	})

	// (2) every size around the prime table entries, fresh instances (new hash seeds)
	c.Stage("size-sweep", c.Pick(260, 2100), true, func(cs *drv.Case) {
		n := int(cs.Idx)
		if cs.Idx >= 200 {
			n = 200 + int(cs.Idx-200)*int(c.Pick(97, 53))
		}
		keys := genKeys(cs.R, n)
		w := map[string]int{}
		vals := make([]int, n)
		for i, k := range keys {
			vals[i] = i*7 + 1
			w[k] = vals[i]
		}
		m := strmap.NewFromSlice(keys, vals)
		cs.Desc = M{"n": n}
		c07CheckInt(cs, m, w, probesFor(cs.R, keys), fmt.Sprintf("fresh n=%d", n))
		ws := map[string]string{}
		svals := make([]string, n)
		for i, k := range keys {
			svals[i] = k + "=v"
			ws[k] = svals[i]
		}
		s := strmap.NewStr2StrFromSlice(keys, svals)
		c07CheckS2S(cs, s, ws, probesFor(cs.R, keys), fmt.Sprintf("fresh n=%d", n))
		cs.Count(n >= 2, "size", n)
		cs.C.ObsMax("max_keys_loaded", int64(n))
	})

	// (2b) a load that fails because a key is longer than 4 GiB must change nothing (the key is a view
	// of untouched zero pages: address space, not memory)
	if !c.Slow() && c.Flavour == "plain" {
		// (2b') a load that fails half way with a panic the caller recovers from (the runtime refuses a key buffer
		// of 2^48 bytes: 70000 distinct keys just below the 4 GiB limit, all views of one untouched mapping) is a
		// failed load too
		c.Stage("failed-load-that-panics", 2, true, func(cs *drv.Case) {
			huge := make([]byte, 1<<32)
			big := unsafe.String(&huge[0], 1<<32-1)
			want := map[string]int{"alpha": 1, "beta": 2, "": 3}
			wantS := map[string]string{"alpha": "value-of-alpha", "beta": "value-of-beta", "": "value-of-empty"}
			im := strmap.NewFromMap(want)
			sm := strmap.NewStr2StrFromMap(wantS)
			n := 70000
			kk := make([]string, n)
			vi := make([]int, n)
			vs := make([]string, n)
			for i := range kk {
				kk[i] = big[:len(big)-i]
				vi[i] = -1
				vs[i] = "x"
			}
			outcome := func(f func() error) (res string) {
				defer func() {
					if p := recover(); p != nil {
						res = "panic: " + fmt.Sprint(p)
					}
				}()
				if err := f(); err != nil {
					return "error: " + err.Error()
				}
				return "accepted"
			}
			var o1, o2 string
			if cs.Idx == 0 {
				o1 = outcome(func() error { return im.LoadFromSlice(kk, vi) })
				o2 = outcome(func() error { return sm.LoadFromSlice(kk, vs) })
			} else {
				// a second refused load right after the first
				o1 = outcome(func() error { return im.LoadFromSlice(kk, vi) })
				outcome(func() error { return sm.LoadFromSlice(kk, vs) })
				o2 = outcome(func() error { return sm.LoadFromSlice(kk[:n-1], vs[:n-1]) })
			}
			cs.Desc = M{"keys": n, "key_len": len(big), "strmap_outcome": o1, "str2str_outcome": o2}
			if o1 == "accepted" || o2 == "accepted" {
				cs.C.DontCare("load-of-2^48-key-bytes-accepted")
				return
			}
			probes := []string{"alpha", "beta", "", "x", "alph", "value-of-alpha"}
			if !c07CheckInt(cs, im, want, probes, "after a load that failed with "+o1) || !c07CheckS2S(cs, sm, wantS, probes, "after a load that failed with "+o2) {
				return
			}
			cs.Count(true, "panicking-load", cs.Idx)
			cs.C.Obs("failed loads checked", 1)
			cs.C.Obs("loads that failed with a recovered panic", 1)
		})
		c.Stage("failed-load-oversized-key", 4, true, func(cs *drv.Case) {
			huge := make([]byte, 1<<32+1)
			hk := unsafe.String(&huge[0], len(huge))
			want := map[string]int{"a": 1, "b": 2, "": 3, "abc": 4}
			wantS := map[string]string{"a": "1", "b": "22", "": "333", "abc": "4444"}
			im := strmap.NewFromMap(want)
			sm := strmap.NewStr2StrFromMap(wantS)
			var kk []string
			if cs.Idx%2 == 0 {
				kk = []string{hk, "x"}
			} else {
				kk = []string{"x", "y", hk}
			}
			var e1, e2 error
			if cs.Idx < 2 {
				e1 = im.LoadFromSlice(kk, make([]int, len(kk)))
				e2 = sm.LoadFromSlice(kk, []string{"REJECTED-1", "REJECTED-2", "REJECTED-3"}[:len(kk)])
			} else {
				e1 = im.LoadFromSlice(kk, make([]int, len(kk)))
				e2 = sm.LoadFromSlice(kk, []string{"R", "", "REJECTED"}[:len(kk)])
			}
			if e1 == nil || e2 == nil {
				cs.Fail("strmap-oversized-key-accepted", nil, M{"errors": fmt.Sprint(e1, e2)})
				return
			}
			probes := []string{"a", "b", "", "abc", "x", "y", "ab", "REJECTED-1"}
			cs.Desc = M{"oversized_key_position": cs.Idx % 2, "key_len": len(hk)}
			if !c07CheckInt(cs, im, want, probes, "after a load that failed with 'key too large'") || !c07CheckS2S(cs, sm, wantS, probes, "after a load that failed with 'key too large'") {
				return
			}
			cs.Count(true, "oversized", cs.Idx)
			cs.C.Obs("failed loads checked", 1)
		})
	}

	// (2b') a Str2Str load with a VALUE longer than 4 GiB (its length does not fit the 4-byte header of the value
	// store): the load must fail - by an error or by the documented panic - and change nothing, or succeed and
	// return the value exactly; it must not store a truncated length
	if !c.Slow() && c.Flavour == "plain" {
		c.Stage("oversized-value", 2, true, func(cs *drv.Case) {
			n := 1<<32 + 5
			mem, free := san.Virtual(n)
			defer free()
			mem[0], mem[n-1] = 'H', 'T'
			hv := unsafe.String(&mem[0], n)
			wantS := map[string]string{"a": "1", "b": "22", "": "333"}
			sm := strmap.NewStr2StrFromMap(wantS)
			kk, vv := []string{"k", "big", "z"}, []string{"v", hv, "w"}
			if cs.Idx == 1 {
				kk, vv = []string{"big"}, []string{hv}
			}
			var err error
			var pnc interface{}
			func() {
				defer func() { pnc = recover() }()
				err = sm.LoadFromSlice(kk, vv)
			}()
			cs.Desc = M{"value_len": n, "position": cs.Idx, "err": errString(err), "panic": fmt.Sprint(pnc)}
			if err != nil || pnc != nil {
				cs.C.Obs("oversized values refused", 1)
				c07CheckS2S(cs, sm, wantS, []string{"a", "b", "", "k", "big", "z"}, "after a load refused because a value is longer than 4 GiB")
			} else {
				got, ok := sm.Get("big")
				if !ok || len(got) != n || got[0] != 'H' || got[n-1] != 'T' {
					cs.Fail("strmap-oversized-value-truncated", nil, M{"value_len": n, "got_len": len(got), "present": ok, "message": "a load with a value longer than 4 GiB succeeded but the value does not come back"})
				}
				cs.C.Obs("oversized values stored", 1)
			}
			cs.Count(true, "oversized-value", cs.Idx)
		})
	}

	// (2b3) values that contain pointers (strings, structs with a string and a pointer) and that ONLY the map
	// references after the load: they must survive collections and heap reuse (an item table the collector does
	// (2d) one instance reloaded more often than any 16-bit counter holds (a configuration map refreshed for months):
	// the content after the last load is what that load gave it
	c.Stage("many-reloads", 3, true, func(cs *drv.Case) {
		r := cs.R
		k1 := genKeys(r, 60)
		w1 := map[string]int{}
		s1 := map[string]string{}
		v1 := make([]int, len(k1))
		sv1 := make([]string, len(k1))
		for i, k := range k1 {
			v1[i], sv1[i] = i+1, fmt.Sprint("v", i)
			w1[k], s1[k] = v1[i], sv1[i]
		}
		im := strmap.New[int]()
		sm := strmap.NewStr2Str()
		if im.LoadFromSlice(k1, v1) != nil || sm.LoadFromSlice(k1, sv1) != nil {
			cs.Fail("strmap-load-error", nil, M{"phase": "first load"})
			return
		}
		// the last load is exactly 2^16 (2^17) loads after the first: a per-load counter of 16 bits is back where it was
		n := 65536 + 1
		if cs.Idx == 1 {
			n = 2*65536 + 1
		} else if cs.Idx == 2 {
			n = 65536 + 10 // ... and a count that is not a multiple
		}
		one := []string{"k"}
		for i := 0; i < n-2; i++ {
			one[0] = "k" + fmt.Sprint(i%7)
			if im.LoadFromSlice(one, []int{i}) != nil || sm.LoadFromSlice(one, []string{"x"}) != nil {
				cs.Fail("strmap-load-error", nil, M{"phase": "reload", "reload": i})
				return
			}
		}
		k2 := genKeys(r, 60)
		w2 := map[string]int{}
		s2 := map[string]string{}
		v2 := make([]int, len(k2))
		sv2 := make([]string, len(k2))
		for i, k := range k2 {
			v2[i], sv2[i] = 1000+i, fmt.Sprint("w", i)
			w2[k], s2[k] = v2[i], sv2[i]
		}
		if im.LoadFromSlice(k2, v2) != nil || sm.LoadFromSlice(k2, sv2) != nil {
			cs.Fail("strmap-load-error", nil, M{"phase": "last load"})
			return
		}
		probes := append(append(probesFor(r, k2), k1...), "k0", "k3", "k")
		cs.Desc = M{"loads_on_one_instance": n}
		if !c07CheckInt(cs, im, w2, probes, fmt.Sprintf("after %d loads on one instance", n)) || !c07CheckS2S(cs, sm, s2, probes, fmt.Sprintf("after %d loads on one instance", n)) {
			return
		}
		cs.Count(true, "manyreloads", cs.Idx)
		cs.C.Obs("instances reloaded more than 65536 times", 1)
	})

	// not scan would let them be freed under the map)
	c.Stage("pointer-values-survive-gc", c.Pick(24, 240), false, func(cs *drv.Case) {
		r := cs.R
		n := 300 + r.Intn(2500)
		keys := genKeys(r, n)
		type pv struct {
			S string
			P *int64
			N int
		}
		svals := make([]string, len(keys))
		pvals := make([]pv, len(keys))
		scopy := make([]string, len(keys))
		ncopy := make([]int64, len(keys))
		for i := range keys {
			b := gen.Bytes(r, 16+r.Intn(48))
			svals[i] = string(b)                             // one allocation, handed to the map
			scopy[i] = string(append([]byte("#"), b...))[1:] // another one, kept by the oracle
			x := new(int64)
			*x = int64(i)*7919 + 13
			ncopy[i] = *x
			pvals[i] = pv{S: string(b), P: x, N: i}
		}
		ms := strmap.NewFromSlice(keys, svals)
		mp := strmap.NewFromSlice(keys, pvals)
		for i := range svals { // drop every reference but the maps'
			svals[i] = ""
			pvals[i] = pv{}
		}
		svals, pvals = nil, nil
		var junk [][]byte
		for round := 0; round < 3; round++ {
			runtime.GC()
			for k := 0; k < 4*len(keys); k++ {
				j := make([]byte, 16+k%48)
				for x := range j {
					j[x] = 'Z'
				}
				junk = append(junk, j)
				if k%3 == 0 {
					y := new(int64)
					*y = -1
					junk = append(junk, nil)
					_ = y
				}
			}
		}
		bad := 0
		for i, k := range keys {
			gs, ok1 := ms.Get(k)
			gp, ok2 := mp.Get(k)
			if !ok1 || !ok2 || gs != scopy[i] || gp.S != scopy[i] || gp.P == nil || *gp.P != ncopy[i] || gp.N != i {
				bad++
			}
		}
		runtime.KeepAlive(junk)
		cs.Desc = M{"keys": len(keys), "value_types": "string, struct{string,*int64,int}"}
		if bad > 0 {
			cs.Fail("strmap-value-collected", nil, M{"wrong": bad, "of": len(keys), "message": "values referenced only by the map changed after garbage collections and heap reuse"})
		}
		cs.Count(true, "ptrvals", cs.Idx)
		cs.C.Obs("maps with pointer-holding values checked after collections", 2)
	})

	// (2c) reloading an instance with keys and values that were obtained from the same instance
	c.Stage("reload-from-own-strings", c.Pick(600, 20000), false, func(cs *drv.Case) {
		r := cs.R
		n := 2 + r.Intn(120)
		keys := genKeys(r, n)
		w := map[string]int{}
		ws := map[string]string{}
		vals := make([]int, n)
		svals := make([]string, n)
		for i, k := range keys {
			vals[i] = i + 1
			svals[i] = string(gen.Bytes(r, 1+r.Intn(12)))
			w[k], ws[k] = vals[i], svals[i]
		}
		im := strmap.NewFromSlice(keys, vals)
		sm := strmap.NewStr2StrFromSlice(keys, svals)
		// take the strings back out of the maps (they may point into the maps' own storage)
		var ownKeys []string
		var ownVals []int
		for i := 0; i < im.Len(); i++ {
			k, v := im.Item(i)
			if r.Intn(2) == 0 {
				ownKeys = append(ownKeys, k)
				ownVals = append(ownVals, v)
			}
		}
		w2 := map[string]int{}
		for i, k := range ownKeys {
			w2[string(append([]byte(nil), k...))] = ownVals[i]
		}
		var sk, sv []string
		ws2 := map[string]string{}
		for i, k := range keys {
			v, _ := sm.Get(keys[(i+1)%len(keys)]) // rotate the values, taken from the map itself
			sk = append(sk, k)
			sv = append(sv, v)
			ws2[k] = string(append([]byte(nil), v...))
		}
		if err := im.LoadFromSlice(ownKeys, ownVals); err != nil {
			cs.Fail("strmap-load-error", nil, M{"err": errString(err)})
			return
		}
		if err := sm.LoadFromSlice(sk, sv); err != nil {
			cs.Fail("strmap-load-error", nil, M{"err": errString(err)})
			return
		}
		cs.Desc = M{"n": n, "kept": len(ownKeys)}
		probes := probesFor(r, keys)
		if !c07CheckInt(cs, im, w2, probes, "after a reload with keys taken from the map's own Item()") || !c07CheckS2S(cs, sm, ws2, probes, "after a reload with values taken from the map's own Get()") {
			return
		}
		cs.Count(true, "own", cs.Idx)
		cs.C.Obs("reloads from own strings", 1)
	})

	// (3) long collision chains: many big loads with fresh hash seeds (the longest chain of a load
	// of 10^5 keys reaches 9 and more only once in ~70 loads)
	c.Stage("collision-hunt", c.Pick(400, 6000), false, func(cs *drv.Case) {
		// sizes just below 0.75 * 2^k: the table is as full as it ever gets (load factor 0.75)
		n := []int{98303, 98303, 196607, 49151}[cs.R.Intn(4)]
		keys := make([]string, n)
		vals := make([]int, n)
		salt := cs.R.Int63()
		for i := range keys {
			keys[i] = fmt.Sprintf("%x.%d", uint64(i)*0x9e3779b97f4a7c15+uint64(salt), i%13)
			vals[i] = i
		}
		m := strmap.NewFromSlice(keys, vals)
		if m.Len() != n {
			cs.Fail("strmap-len", M{"map": "StrMap[int]"}, M{"n": n, "len": m.Len()})
			return
		}
		for i, k := range keys {
			if g, ok := m.Get(k); !ok || g != i {
				cs.Fail("strmap-loaded-key-missing", M{"map": "StrMap[int]", "stage": "collision-hunt"}, M{"n": n, "message": fmt.Sprintf("Get(%q) = (%d, %v), want (%d, true)", k, g, ok, i)})
				return
			}
		}
		for i := 0; i < 2000; i++ {
			if _, ok := m.Get(keys[i] + "~"); ok {
				cs.Fail("strmap-probe", M{"map": "StrMap[int]", "stage": "collision-hunt"}, M{"n": n, "message": "an absent key is reported present"})
				return
			}
		}
		cs.Desc = M{"keys": n}
		cs.Count(true, "hunt", cs.Idx)
		cs.C.Obs("big loads (collision hunt)", 1)
		cs.C.Obs("map queries compared", int64(n+2000))
	})

	if c.Thorough() && !c.Slow() && c.Flavour == "plain" {
		// (4) more than 4 GiB of key bytes in one load (offsets beyond 32 bits); ~7 GB of memory, one case
		c.Stage("over-4GiB-of-keys", 1, true, func(cs *drv.Case) {
			const unit = 1 << 30
			backing := make([]byte, unit+8)
			for i := range backing {
				backing[i] = byte(i * 7)
			}
			var keys []string
			var vals []int
			for i := 0; i < 5; i++ {
				keys = append(keys, string(backing[i:unit+i-3+i%2])) // five distinct ~1 GiB keys
				vals = append(vals, 100+i)
			}
			keys = append(keys, "small", "")
			vals = append(vals, 1, 2)
			m := strmap.NewFromSlice(keys, vals)
			for i, k := range keys {
				if g, ok := m.Get(k); !ok || g != vals[i] {
					cs.Fail("strmap-loaded-key-missing", M{"map": "StrMap[int]", "stage": "over-4GiB"}, M{"key_index": i, "key_len": len(k), "got": g, "ok": ok})
					return
				}
			}
			seen := 0
			for i := 0; i < m.Len(); i++ {
				k, v := m.Item(i)
				for j := range keys {
					if len(k) == len(keys[j]) && v == vals[j] && k == keys[j] {
						seen++
					}
				}
			}
			if seen != len(keys) {
				cs.Fail("strmap-item-enumeration", M{"map": "StrMap[int]", "stage": "over-4GiB"}, M{"matched": seen, "want": len(keys)})
			}
			cs.Desc = M{"total_key_bytes": "5 GiB"}
			cs.Count(true, "4gib")
			cs.C.Obs("loads with more than 4 GiB of key bytes", 1)
		})
	}

	if c.Thorough() {
		c.Stage("large", 4, true, func(cs *drv.Case) {
			n := []int{50000, 100000, 131072, 200000}[cs.Idx]
			keys := make([]string, n)
			w := make(map[string]int, n)
			vals := make([]int, n)
			for i := range keys {
				keys[i] = fmt.Sprintf("%x/%d", i*2654435761, i%7)
				vals[i] = i
				w[keys[i]] = i
			}
			sort.Strings(keys)
			for i, k := range keys {
				vals[i] = w[k]
			}
			m := strmap.NewFromSlice(keys, vals)
			c07CheckInt(cs, m, w, probesFor(cs.R, keys), fmt.Sprintf("large n=%d", n))
			cs.Count(true, "large", n)
		})
	}
}
