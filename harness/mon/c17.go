package mon

import (
	"errors"
	"fmt"
	"io"

	"github.com/cloudwego/gopkg/bufiox"
	"github.com/cloudwego/gopkg/protocol/thrift"

	"verifharness/doubles"
	"verifharness/drv"
	"verifharness/gen"
	"verifharness/ref"
)

func init() { drv.Register("C17", monC17) }

// protocol-exception type ids as Thrift defines them (TProtocolException); deliberately not taken from the library
const (
	peUnknown      int32 = 0
	peInvalidData  int32 = 1
	peNegativeSize int32 = 2
	peSizeLimit    int32 = 3
	peBadVersion   int32 = 4
	peNotImpl      int32 = 5
	peDepthLimit   int32 = 6
)

var typeIDNames = map[int32]string{0: "UNKNOWN", 1: "INVALID_DATA", 2: "NEGATIVE_SIZE", 3: "SIZE_LIMIT", 4: "BAD_VERSION", 5: "NOT_IMPLEMENTED", 6: "DEPTH_LIMIT"}

// acceptedIDs maps the oracle's cause set to the exception type ids Thrift defines for them.
func acceptedIDs(pr *ref.ParseResult) map[int32]bool {
	acc := map[int32]bool{}
	if pr.Causes&(ref.CTrunc|ref.CUnknown) != 0 {
		acc[peInvalidData] = true
	}
	if pr.Causes&ref.CNeg != 0 {
		acc[peNegativeSize] = true
	}
	if pr.Causes&ref.CDepth != 0 || pr.FailNesting >= 64 || pr.MaxNesting >= 64 {
		acc[peDepthLimit] = true
	}
	return acc
}

func idNames(m map[int32]bool) []string {
	var out []string
	for k := range m {
		out = append(out, typeIDNames[k])
	}
	return out
}

// c17Skip judges the error of Binary.Skip on (b, t).
func c17Skip(cs *drv.Case, b []byte, t byte) {
	pr := ref.Parse(b, t)
	if pr.TooDeep || pr.DontCare {
		return
	}
	var n int
	var err error
	func() {
		defer func() { recover() }() // panics are C03's and C08's business
		n, err = thrift.Binary.Skip(place(b, 0), thrift.TType(t))
	}()
	_ = n
	if err == nil {
		return
	}
	if pr.OK && pr.MaxNesting <= 63 {
		return // rejecting a well-formed value is judged by C08
	}
	acc := acceptedIDs(&pr)
	if pr.OK && pr.MaxNesting >= 64 {
		acc = map[int32]bool{peDepthLimit: true}
	}
	if pr.DeepOff >= 0 {
		// a 65th nested container is met (in input order) before anything else is wrong:
		// the depth limit is the cause, whatever comes later
		acc = map[int32]bool{peDepthLimit: true}
	}
	id, ok := typeID(err)
	class := fmt.Sprint(causeNames(pr.Causes))
	if pr.MaxNesting >= 64 {
		class += "+deep"
	}
	cs.C.Obs("skip failures classified", 1)
	cs.C.Obs("class "+class, 1)
	if !ok {
		cs.Fail("error-not-protocol-exception", M{"entry": "Binary.Skip"}, M{"type": t, "input_hex": hexOf(b), "err": errString(err), "err_type": fmt.Sprintf("%T", err)})
		return
	}
	if !acc[id] {
		cs.Fail("error-wrong-type-id", M{"entry": "Binary.Skip", "got": typeIDNames[id], "class": class}, M{"type": t, "input_hex": hexOf(b), "err": errString(err), "accepted": idNames(acc), "oracle_fail_offset": pr.FailOff})
	}
}

// c17Reader judges one thrift.Binary reader on a truncated / negative-size input.
func c17Readers(cs *drv.Case, b []byte) {
	// the allocator switch must not change the error class: alternate it between cases
	thrift.SetSpanCache(cs.Idx%2 == 1)
	defer thrift.SetSpanCache(false)
	in := place(b, 0)
	x := thrift.Binary
	check := func(entry string, err error, need int, acc ...int32) {
		if err == nil {
			if len(b) < need {
				// success on too few bytes is C03/C01's business
			}
			return
		}
		cs.C.Obs("reader failures classified", 1)
		id, ok := typeID(err)
		if !ok {
			cs.Fail("error-not-protocol-exception", M{"entry": entry}, M{"input_hex": hexOf(b), "err": errString(err), "err_type": fmt.Sprintf("%T", err)})
			return
		}
		for _, a := range acc {
			if a == id {
				return
			}
		}
		cs.Fail("error-wrong-type-id", M{"entry": entry, "got": typeIDNames[id]}, M{"input_hex": hexOf(b), "err": errString(err)})
	}
	_, _, e := x.ReadBool(in)
	check("Binary.ReadBool", e, 1, peInvalidData)
	_, _, e = x.ReadByte(in)
	check("Binary.ReadByte", e, 1, peInvalidData)
	_, _, e = x.ReadI16(in)
	check("Binary.ReadI16", e, 2, peInvalidData)
	_, _, e = x.ReadI32(in)
	check("Binary.ReadI32", e, 4, peInvalidData)
	_, _, e = x.ReadI64(in)
	check("Binary.ReadI64", e, 8, peInvalidData)
	_, _, e = x.ReadDouble(in)
	check("Binary.ReadDouble", e, 8, peInvalidData)
	_, _, _, e = x.ReadFieldBegin(in)
	check("Binary.ReadFieldBegin", e, 1, peInvalidData)
	_, _, _, _, e = x.ReadMapBegin(in)
	check("Binary.ReadMapBegin", e, 6, peInvalidData)
	_, _, _, e = x.ReadListBegin(in)
	check("Binary.ReadListBegin", e, 5, peInvalidData)
	_, _, _, e = x.ReadSetBegin(in)
	check("Binary.ReadSetBegin", e, 5, peInvalidData)
	// string / binary: negative declared size -> NEGATIVE_SIZE, otherwise truncation -> INVALID_DATA
	neg := len(b) >= 4 && b[0]&0x80 != 0
	want := int32(peInvalidData)
	if neg {
		want = peNegativeSize
	}
	_, _, e = x.ReadString(in)
	check("Binary.ReadString", e, 4, want)
	_, _, e = x.ReadBinary(in)
	check("Binary.ReadBinary", e, 4, want)
}

func c17Message(cs *drv.Case, b []byte) {
	in := place(b, 0)
	_, _, _, _, err := thrift.Binary.ReadMessageBegin(in)
	if err == nil {
		return
	}
	cs.C.Obs("message-begin failures classified", 1)
	id, ok := typeID(err)
	if !ok {
		cs.Fail("error-not-protocol-exception", M{"entry": "Binary.ReadMessageBegin"}, M{"input_hex": hexOf(b), "err": errString(err)})
		return
	}
	acc := map[int32]bool{}
	switch {
	case len(b) < 4:
		acc[peInvalidData] = true
	case uint32(b[0])<<8|uint32(b[1]) != 0x8001:
		acc[peBadVersion] = true
	default:
		acc[peInvalidData] = true
		if len(b) >= 8 && b[4]&0x80 != 0 {
			// negative method-name length: the cause is "negative size" (the buffer is not too small)
			acc = map[int32]bool{peNegativeSize: true}
		}
	}
	if !acc[id] {
		cs.Fail("error-wrong-type-id", M{"entry": "Binary.ReadMessageBegin", "got": typeIDNames[id]}, M{"input_hex": hexOf(b), "err": errString(err), "accepted": idNames(acc)})
	}
}

// sliceErr is an error whose dynamic type is not comparable.
type sliceErr []string

func (e sliceErr) Error() string { return "aggregate: " + fmt.Sprint([]string(e)) }

var c17Errs = []error{io.EOF, io.ErrUnexpectedEOF, doubles.ErrCustom, errors.New("connection reset by peer"),
	doubles.ErrTimeout,
	fmt.Errorf("framed transport: %w", thrift.NewProtocolException(peInvalidData, "inner protocol error")), // wraps a protocol exception
	fmt.Errorf("tls: %w", io.EOF),
	sliceErr{"a", "b"}, // non-comparable dynamic type
	thrift.NewTransportException(3, "transport closed"),
}

// the last stream failure seen by this worker: the error value a caller may still hold while the
// pooled reader that produced it is being reused
var c17Prev struct {
	err  error
	src  error
	text string
}

// c17Matches is errors.Is for comparable source errors. A source error of a non-comparable dynamic
// type can never be matched by errors.Is (that is how the errors package works); for those the
// cause must be reachable with errors.As, and asking errors.Is must simply not panic.
func c17Matches(err, src error) bool {
	if se, ok := src.(sliceErr); ok {
		_ = errors.Is(err, src)
		var got sliceErr
		return errors.As(err, &got) && len(got) == len(se)
	}
	return errors.Is(err, src)
}

func c17CheckPrev(cs *drv.Case) {
	if c17Prev.err == nil {
		return
	}
	if !c17Matches(c17Prev.err, c17Prev.src) || c17Prev.err.Error() != c17Prev.text {
		cs.Fail("retained-error-changed", M{"source_err": c17Prev.src.Error()}, M{"was": c17Prev.text, "now": c17Prev.err.Error(), "message": "an error returned by an earlier, finished decode changed after the pooled reader was reused"})
	}
	c17Prev.err = nil
}

// c17Stream: every BufferReader operation on a valid stream cut at `cut` with source error e.
func c17Stream(cs *drv.Case, vals []cval, stream []byte, cut int, e error, withData bool, sched int) {
	src := &doubles.Source{Data: stream, Len: len(stream), ErrAt: cut, Err: e, WithData: withData, Sched: sched, R: cs.R, ZeroMax: 1, Budget: 10*len(stream) + 100000}
	if !withData && cs.R.Intn(3) == 0 {
		// empty reads between the last data and the error (fewer than the 100 that mean "no progress")
		src.ZerosBeforeErr = []int{1, 50, 97, 98, 99}[cs.R.Intn(5)]
		src.ZeroMax = 0
		cs.C.Obs("stream failures after a run of empty reads", 1)
	}
	if e != io.EOF && cut%3 == 0 {
		src.AfterErr = io.EOF // the source reports its error once (maybe with its last bytes) and plain EOF afterwards
	}
	dr := bufiox.NewDefaultReader(src)
	br := thrift.NewBufferReader(dr)
	defer func() {
		br.Recycle()
		dr.Release(nil)
	}()
	for i, v := range vals {
		ferr := streamErr(v, br)
		if ferr == nil {
			if cs.R.Intn(3) == 0 {
				// the application is done with this value: what the source said with its last bytes is not forgotten
				if cs.R.Intn(2) == 0 {
					dr.Release(nil)
				} else {
					dr.Release(errors.New("the caller gave up on this message")) // the reason given to Release is the caller's, not the stream's
				}
				cs.C.Obs("releases between the values of a failing stream", 1)
			}
			continue
		}
		// the stream is a valid encoding cut short: this failure is caused by the underlying reader
		cs.C.Obs("stream failures classified", 1)
		if !c17Matches(ferr, e) {
			cs.Fail("source-error-not-matchable", M{"kind": kindNames[v.K], "source_err": e.Error()}, M{"value_index": i, "cut": cut, "stream_len": len(stream), "err": errString(ferr), "err_type": fmt.Sprintf("%T", ferr), "with_data": withData, "message": "errors.Is(err, sourceErr) is false for a failure caused by the underlying reader"})
		}
		if _, isPE := typeID(ferr); isPE {
			cs.C.Obs("stream failures that are protocol exceptions", 1)
		}
		c17CheckPrev(cs)
		c17Prev.err, c17Prev.src, c17Prev.text = ferr, e, ferr.Error()
		// the caller tries again / goes on with the next values on the same reader: whatever fails now still fails
		// because of that source error
		// (only for fixed-size scalars: their read consumes nothing when it fails, so the retry asks for the same
		// missing bytes; a string or header that failed half way leaves the reader inside the value)
		if v.K >= kBool && v.K <= kDouble {
			for j := 0; j < 3; j++ {
				if again := streamErr(v, br); again != nil {
					cs.C.Obs("later failures on a reader that had failed", 1)
					if !c17Matches(again, e) {
						cs.Fail("source-error-not-matchable", M{"kind": kindNames[v.K], "source_err": e.Error(), "call": "the same read tried again after it had failed"}, M{"value_index": i, "retry": j + 1, "cut": cut, "err": errString(again), "err_type": fmt.Sprintf("%T", again),
							"message": "the same read, tried again on the same reader, no longer carries the source's error"})
						break
					}
				}
			}
		}
		return
	}
	if cut < len(stream) {
		// the values need every byte of the stream and the source fails after cut of them: a reader that
		// read all the values without any error has lost the source's error
		cs.Fail("source-error-lost", M{"source_err": e.Error()}, M{"cut": cut, "stream_len": len(stream), "with_data": withData, "values": len(vals),
			"message": "every value was read without an error although the underlying reader failed before the end of the stream"})
	}
}

// c17StreamSkip: BufferReader.Skip over a valid value cut short must surface the source's error.
func c17StreamSkip(cs *drv.Case, t byte, enc []byte, cut int, e error, withData bool, sched int) {
	src := &doubles.Source{Data: enc, Len: len(enc), ErrAt: cut, Err: e, WithData: withData, Sched: sched, R: cs.R, Budget: 10*len(enc) + 100000}
	dr := bufiox.NewDefaultReader(src)
	br := thrift.NewBufferReader(dr)
	err := br.Skip(thrift.TType(t))
	br.Recycle()
	dr.Release(nil)
	if err == nil {
		return // accepting a truncated value is C08's business
	}
	cs.C.Obs("stream failures classified", 1)
	if !c17Matches(err, e) {
		cs.Fail("source-error-not-matchable", M{"kind": "Skip", "source_err": e.Error()}, M{"type": t, "cut": cut, "stream_len": len(enc), "err": errString(err), "err_type": fmt.Sprintf("%T", err)})
	}
}

func streamErr(v cval, r *thrift.BufferReader) error {
	var err error
	switch v.K {
	case kBool:
		_, err = r.ReadBool()
	case kByte:
		_, err = r.ReadByte()
	case kI16:
		_, err = r.ReadI16()
	case kI32:
		_, err = r.ReadI32()
	case kI64:
		_, err = r.ReadI64()
	case kDouble:
		_, err = r.ReadDouble()
	case kString:
		_, err = r.ReadString()
	case kBinary:
		_, err = r.ReadBinary()
	case kFieldBegin, kFieldStop:
		_, _, err = r.ReadFieldBegin()
	case kMapBegin:
		_, _, _, err = r.ReadMapBegin()
	case kListBegin:
		_, _, err = r.ReadListBegin()
	case kSetBegin:
		_, _, err = r.ReadSetBegin()
	default:
		_, _, _, err = r.ReadMessageBegin()
	}
	return err
}

func monC17(c *drv.Ctx) {
	// (1) grammar-alphabet strings
	maxLen := int(c.Pick(4, 6))
	if c.Slow() {
		maxLen = 4
	}
	for n := 1; n <= maxLen; n++ {
		n := n
		c.Stage(fmt.Sprintf("alphabet-len%d", n), gen.Pow(int64(len(gen.GrammarAlphabet)), n), true, func(cs *drv.Case) {
			b := gen.AlphabetString(gen.GrammarAlphabet, n, cs.Idx)
			for _, t := range []byte{ref.STRUCT, ref.MAP, ref.LIST, ref.SET, ref.STRING, ref.I64, 0x7f} {
				c17Skip(cs, b, t)
			}
			c17Readers(cs, b)
			c17Message(cs, b)
			cs.Count(true, b)
		})
	}
	// (2) mutated encodings classified by the oracle
	c.Stage("mutants", c.Pick(300000, 5000000), false, func(cs *drv.Case) {
		r := cs.R
		t := ref.KnownTypes[r.Intn(len(ref.KnownTypes))]
		v := gen.Tree(r, t, gen.TreeOpts{MaxDepth: 1 + r.Intn(4), MaxElems: 4}, 0)
		enc := v.Encode(nil)
		m, kind := gen.Mutate(r, enc, nil)
		cs.Desc = M{"type": t, "mutation": kind, "input_hex": hexOf(m)}
		c17Skip(cs, m, t)
		c17Readers(cs, m)
		if cs.Idx%4 == 0 {
			msg := ref.EncMessageBegin(nil, string(gen.Bytes(r, r.Intn(10))), int32(r.Intn(5)), gen.I32(r))
			mm, _ := gen.Mutate(r, msg, nil)
			c17Message(cs, mm)
		}
		cs.Count(true, t, m)
		if cs.WantSample() && cs.Idx%1999 == 1 {
			cs.Sample(cs.Desc)
		}
	})
	// (3) negative sizes in every size position, fixed and variable element types
	// the exported type-id constants are the numbers Thrift assigns (TProtocolException)
	c.Stage("wire-constants", 1, true, func(cs *drv.Case) {
		got := map[string]int32{"UNKNOWN_PROTOCOL_EXCEPTION": thrift.UNKNOWN_PROTOCOL_EXCEPTION, "INVALID_DATA": thrift.INVALID_DATA, "NEGATIVE_SIZE": thrift.NEGATIVE_SIZE,
			"SIZE_LIMIT": thrift.SIZE_LIMIT, "BAD_VERSION": thrift.BAD_VERSION, "NOT_IMPLEMENTED": thrift.NOT_IMPLEMENTED, "DEPTH_LIMIT": thrift.DEPTH_LIMIT}
		want := map[string]int32{"UNKNOWN_PROTOCOL_EXCEPTION": peUnknown, "INVALID_DATA": peInvalidData, "NEGATIVE_SIZE": peNegativeSize,
			"SIZE_LIMIT": peSizeLimit, "BAD_VERSION": peBadVersion, "NOT_IMPLEMENTED": peNotImpl, "DEPTH_LIMIT": peDepthLimit}
		for k, w := range want {
			if got[k] != w {
				cs.Fail("type-id-constant", M{"name": k}, M{"got": got[k], "thrift_defines": w})
			}
		}
		cs.Count(true, "constants")
	})
	c.Stage("negative-sizes", 11*11*4, true, func(cs *drv.Case) {
		i := cs.Idx
		kt := ref.KnownTypes[i%11]
		vt := ref.KnownTypes[(i/11)%11]
		sz := []uint32{0x80000000, 0xffffffff, 0xfffffffe, 0x80000001}[i/121]
		shapes := []struct {
			b []byte
			t byte
		}{
			{ref.EncMapBegin(nil, kt, vt, sz), ref.MAP},
			{ref.EncListBegin(nil, vt, sz), ref.LIST},
			{ref.EncListBegin(nil, vt, sz), ref.SET},
			{ref.U32(nil, sz), ref.STRING},
			{append(ref.EncFieldBegin(nil, ref.LIST, 3), ref.EncListBegin(nil, vt, sz)...), ref.STRUCT},
			{append(ref.EncFieldBegin(nil, ref.MAP, 3), ref.EncMapBegin(nil, kt, vt, sz)...), ref.STRUCT},
			{append(ref.EncListBegin(nil, ref.LIST, 1), ref.EncListBegin(nil, vt, sz)...), ref.LIST},
		}
		for _, s := range shapes {
			b := append(append([]byte(nil), s.b...), 0, 0, 0, 0, 0, 0, 0, 0, 0, 0, 0, 0, 0, 0, 0, 0, 0)
			cs.Desc = M{"type": s.t, "input_hex": hexOf(b)}
			c17Skip(cs, b, s.t)
		}
		cs.Count(true, "neg", i)
		cs.C.Obs("negative-size cases", 1)
	})
	// (4) nesting 60..70
	c.Stage("deep", 11*4*3, true, func(cs *drv.Case) {
		depth := 60 + int(cs.Idx%11)
		kind := []byte{ref.STRUCT, ref.MAP, ref.SET, ref.LIST}[(cs.Idx/11)%4]
		b := gen.Nested(kind, depth, int(cs.Idx/44))
		c17Skip(cs, b, kind)
		c17Skip(cs, b[:len(b)-1], kind)
		bad := append([]byte(nil), b...)
		bad[len(bad)/2] = 0x7f
		c17Skip(cs, bad, kind)
		cs.Count(true, "deep", cs.Idx)
	})
	// (4b) nesting 58..70 entered through every position, incl. map keys
	c.Stage("deep-paths", int64(len(gen.NestPaths))*13*2, true, func(cs *drv.Case) {
		i := cs.Idx
		depth := 58 + int(i%13)
		path := gen.NestPaths[(i/13)%int64(len(gen.NestPaths))]
		b, top := gen.NestedPath(path, depth, i/(13*int64(len(gen.NestPaths))) == 1)
		cs.Desc = M{"path": path, "depth": depth, "input_hex": hexOf(b)}
		c17Skip(cs, b, top)
		// every cut point: in particular the ones where the input ends exactly where the 65th container would begin
		for cut := 0; cut < len(b); cut++ {
			c17Skip(cs, b[:cut], top)
		}
		cs.C.Obs("deep values cut at every position", 1)
		// a negative size right at the innermost level
		bad := append([]byte(nil), b...)
		if len(bad) > 8 {
			bad[len(bad)/2] = 0x80
			c17Skip(cs, bad, top)
		}
		cs.Count(true, "deeppath", i)
	})

	// (5) stream reader: every cut position x every injected error value
	c.Stage("source-errors", c.Pick(20000, 300000), false, func(cs *drv.Case) {
		r := cs.R
		n := 1 + r.Intn(6)
		vals := make([]cval, n)
		var stream []byte
		for i := range vals {
			vals[i] = genCval(r, false)
			if len(vals[i].S) > 60 {
				vals[i].S = vals[i].S[:60]
			}
			stream = vals[i].ref(stream)
		}
		sched := r.Intn(doubles.NSched)
		for cut := 0; cut < len(stream); cut++ {
			e := c17Errs[(cut+int(cs.Idx))%len(c17Errs)]
			c17Stream(cs, vals, stream, cut, e, cut%2 == 0, sched)
		}
		// BufferReader.Skip over a generated value cut at every position
		t := ref.KnownTypes[r.Intn(len(ref.KnownTypes))]
		tv := gen.Tree(r, t, gen.TreeOpts{MaxDepth: 2, MaxElems: 3}, 0)
		te := tv.Encode(nil)
		if len(te) <= 300 {
			for cut := 0; cut < len(te); cut++ {
				c17StreamSkip(cs, t, te, cut, c17Errs[(cut+1)%len(c17Errs)], cut%2 == 1, sched)
			}
		}
		// a string/binary longer than the reader's buffer, the source failing at a few positions inside it
		// (the payload of such a value may be read along another path than short ones)
		if cs.Idx%8 == 0 {
			big := cval{K: kBinary, S: gen.Bytes(r, 4096+r.Intn(9000))}
			if r.Intn(2) == 0 {
				big.K = kString
			}
			bvals := []cval{{K: kI32, I: 7}, big, {K: kI64, I: 9}}
			var bstream []byte
			for _, v := range bvals {
				bstream = append(bstream, v.ref(nil)...)
			}
			for _, cut := range []int{5, 9, 100, 4095, 4096, 4097, 4200, len(bstream) - 9, len(bstream) - 8, len(bstream) - 1} {
				if cut > 0 && cut < len(bstream) {
					for _, e := range []error{io.EOF, c17Errs[(cut+int(cs.Idx))%len(c17Errs)]} {
						c17Stream(cs, bvals, bstream, cut, e, cut%2 == 0, sched)
					}
				}
			}
			cs.C.Obs("long values cut inside the payload", 1)
		}
		// pooled-reader reuse: a reader that failed on one source must report the new source's error next time
		c17Stream(cs, vals, stream, len(stream)/2, c17Errs[3], false, sched)
		c17Stream(cs, vals, stream, len(stream)/3, c17Errs[0], false, sched)
		cs.Count(true, "src", fmt.Sprint(vals), sched)
		cs.C.Obs("source-error sweeps", 1)
	})
}
