package mon

import (
	"bytes"
	"errors"
	"fmt"
	"io"

	"github.com/cloudwego/gopkg/bufiox"
	"github.com/cloudwego/gopkg/protocol/thrift"
	"github.com/cloudwego/gopkg/protocol/thrift/base"

	"verifharness/doubles"
	"verifharness/drv"
	"verifharness/gen"
	"verifharness/ref"
)

func init() { drv.Register("C12", monC12) }

// message types as Thrift defines them (TMessageType); deliberately not taken from the library
const (
	mtCall      int32 = 1
	mtReply     int32 = 2
	mtException int32 = 3
	mtOneway    int32 = 4
)

// c12Envelope checks one (name, type, seq) through 3 writers x 2 readers.
func c12Envelope(cs *drv.Case, name string, mtype int32, seq int32, sched int) bool {
	want := ref.EncMessageBegin(nil, name, mtype, seq)
	fail := func(check, msg string, a ...interface{}) bool {
		cs.Fail(check, nil, M{"name_len": len(name), "name": fmt.Sprintf("%.40q", name), "type": mtype, "seq": seq, "message": fmt.Sprintf(msg, a...)})
		return false
	}
	x := thrift.Binary
	if l := x.MessageBeginLength(name); l != len(want) {
		return fail("envelope-length", "MessageBeginLength %d, wire %d", l, len(want))
	}
	b1 := make([]byte, len(want))
	n := x.WriteMessageBegin(b1, name, mtype, seq)
	b2 := x.AppendMessageBegin([]byte{0xEE}, name, mtype, seq)
	sink := &doubles.Sink{}
	dw := bufiox.NewDefaultWriter(sink)
	bw := thrift.NewBufferWriter(dw)
	err := bw.WriteMessageBegin(name, mtype, seq)
	dw.Flush()
	bw.Recycle()
	if n != len(want) || !bytes.Equal(b1, want) {
		return fail("envelope-writer", "WriteMessageBegin wrote %s", hexOf(b1))
	}
	if len(b2) != 1+len(want) || b2[0] != 0xEE || !bytes.Equal(b2[1:], want) {
		return fail("envelope-writer", "AppendMessageBegin wrote %s", hexOf(b2))
	}
	if err != nil || !bytes.Equal(sink.All(), want) {
		return fail("envelope-writer", "BufferWriter.WriteMessageBegin err=%v wrote %s", err, hexOf(sink.All()))
	}
	// readers
	wantType := mtype & 0xffff
	in := place(append(append([]byte(nil), want...), 0x0c, 0x00), 0)
	gn, gt, gs, l, err := x.ReadMessageBegin(in)
	if err != nil || gn != name || gt != wantType || gs != seq || l != len(want) {
		return fail("envelope-buffer-reader", "got (%.40q, %d, %d, %d, %v), want type %d len %d", gn, gt, gs, l, err, wantType, len(want))
	}
	stream := append(append([]byte(nil), want...), 1, 2, 3)
	rd := bufiox.NewDefaultReader(&doubles.Source{Data: stream, Len: len(stream), ErrAt: len(stream), Err: io.EOF, Sched: sched, R: cs.R, ZeroMax: 2, Budget: 10*len(stream) + 100000})
	br := thrift.NewBufferReader(rd)
	gn, gt, gs, err = br.ReadMessageBegin()
	consumed := br.Readn()
	if err != nil || gn != name || gt != wantType || gs != seq || int(consumed) != len(want) {
		br.Recycle()
		return fail("envelope-stream-reader", "got (%.40q, %d, %d, consumed %d, %v)", gn, gt, gs, consumed, err)
	}
	// a connection that stays open after the header has arrived (the peer now waits for the reply): reading the
	// header never asks the source for more than the header's own bytes
	{
		src := &doubles.Source{Data: want, Len: len(want), ErrAt: len(want), Err: io.EOF, Sched: sched, R: cs.R, ZeroMax: 2, Budget: 10*len(want) + 100000}
		rd2 := bufiox.NewDefaultReader(src)
		br2 := thrift.NewBufferReader(rd2)
		n2, t2, s2, err2 := br2.ReadMessageBegin()
		c2 := br2.Readn()
		br2.Recycle()
		if err2 != nil || n2 != name || t2 != wantType || s2 != seq || int(c2) != len(want) {
			return fail("envelope-stream-reader", "header alone on the stream: got (%.40q, %d, %d, consumed %d, %v)", n2, t2, s2, c2, err2)
		}
		if src.EndReads > 0 {
			return fail("envelope-reader-demands-more-than-the-header", "%d Read calls after the source had delivered every byte of the %d-byte header (blocks for good on a connection that stays open)", src.EndReads, len(want))
		}
		rd2.Release(nil)
		cs.C.Obs("headers read from a source holding nothing else", 1)
	}
	// the returned name is a value: it must survive Release, further reads and reuse of the pool buffers
	rd.Release(nil)
	rd.Next(3)
	rd.Release(nil)
	br.Recycle()
	ct := &coTenant{r: cs.R}
	ct.run(cs, nil, nil, nil, len(stream)+4096, "c12")
	ct.done()
	if gn != name {
		return fail("envelope-name-changed", "the method name returned by the stream reader changed after Release / buffer reuse")
	}
	cs.C.Obs("envelopes round-tripped", 1)
	return true
}

// badVersion feeds a first word lacking the strict-version marker to both readers.
func c12FirstWord(cs *drv.Case, w uint32) {
	good := w&0xffff0000 == 0x80010000
	b := ref.U32(nil, w)
	b = ref.EncString(b, "method")
	b = ref.U32(b, 42)
	check := func(which string, err error) {
		if good {
			if err != nil {
				cs.Fail("strict-version-rejected-valid", M{"reader": which}, M{"first_word": fmt.Sprintf("%#08x", w), "err": errString(err)})
			}
			return
		}
		if err == nil {
			cs.Fail("bad-version-accepted", M{"reader": which}, M{"first_word": fmt.Sprintf("%#08x", w)})
			return
		}
		id, ok := typeID(err)
		if !ok || id != int32(4) {
			cs.Fail("bad-version-error-type", M{"reader": which}, M{"first_word": fmt.Sprintf("%#08x", w), "err": errString(err), "type_id": id, "is_protocol_exception": ok})
		}
	}
	_, _, _, _, err := thrift.Binary.ReadMessageBegin(place(b, 0))
	check("Binary.ReadMessageBegin", err)
	rd := bufiox.NewBytesReader(b)
	br := thrift.NewBufferReader(rd)
	_, _, _, err = br.ReadMessageBegin()
	br.Recycle()
	rd.Release(nil)
	check("BufferReader.ReadMessageBegin", err)
	cs.C.Obs("first words tried", 1)
}

func monC12(c *drv.Ctx) {
	// (1) random envelopes
	// the message-type constants a caller passes in are the numbers Thrift assigns
	c.Stage("wire-constants", 1, true, func(cs *drv.Case) {
		got := map[string]int32{"INVALID_TMESSAGE_TYPE": thrift.INVALID_TMESSAGE_TYPE, "CALL": thrift.CALL, "REPLY": thrift.REPLY, "EXCEPTION": thrift.EXCEPTION, "ONEWAY": thrift.ONEWAY}
		want := map[string]int32{"INVALID_TMESSAGE_TYPE": 0, "CALL": mtCall, "REPLY": mtReply, "EXCEPTION": mtException, "ONEWAY": mtOneway}
		for k, w := range want {
			if got[k] != w {
				cs.Fail("message-type-constant", M{"name": k}, M{"got": got[k], "thrift_defines": w})
			}
		}
		cs.Count(true, "constants")
	})
	c.Stage("envelopes", c.Pick(200000, 2000000), false, func(cs *drv.Case) {
		r := cs.R
		var name string
		switch r.Intn(10) {
		case 0:
			name = ""
		case 1:
			name = string(gen.Bytes(r, gen.StringLens[r.Intn(len(gen.StringLens))]))
		default:
			name = string(gen.Bytes(r, 1+r.Intn(40)))
		}
		mtype := int32(r.Intn(65536))
		if r.Intn(3) == 0 {
			mtype = int32(r.Intn(6))
		}
		seq := gen.I32(r)
		sched := r.Intn(doubles.NSched)
		cs.Desc = M{"name_len": len(name), "type": mtype, "seq": seq, "schedule": doubles.SchedNames[sched]}
		c12Envelope(cs, name, mtype, seq, sched)
		cs.Count(true, name, mtype, seq, sched)
		if cs.WantSample() && cs.Idx%501 == 1 {
			cs.Sample(cs.Desc)
		}
	})
	// (2) all 65536 message types
	c.Stage("all-message-types", 65536, true, func(cs *drv.Case) {
		c12Envelope(cs, "m", int32(cs.Idx), int32(cs.Idx)*7919, int(cs.Idx%doubles.NSched))
		cs.Count(true, "mtype", cs.Idx)
	})
	// (3) first word: all 65536 high halves x sampled low halves
	c.Stage("all-version-words", 65536, true, func(cs *drv.Case) {
		hi := uint32(cs.Idx) << 16
		for _, lo := range []uint32{0, 1, 3, 0xffff, uint32(cs.R.Intn(65536))} {
			c12FirstWord(cs, hi|lo)
		}
		cs.Count(true, "word", cs.Idx)
	})
	// (3b) a first word without the marker in front of something that would be a good header by itself (a frame
	// length prefix of a framed transport, say): still a bad version - the first word decides, nothing is
	// searched for further on
	c.Stage("unmarked-word-before-a-header", c.Pick(3000, 60000), false, func(cs *drv.Case) {
		r := cs.R
		name := string(gen.Bytes(r, r.Intn(12)))
		hdr := ref.EncMessageBegin(nil, name, int32(1+r.Intn(4)), gen.I32(r))
		var w uint32
		switch r.Intn(4) {
		case 0:
			w = uint32(len(hdr)) // a frame length
		case 1:
			w = uint32(len(hdr) + r.Intn(100))
		case 2:
			w = uint32(r.Intn(1 << 16))
		default:
			w = r.Uint32()
		}
		if w&0xffff0000 == 0x80010000 {
			w &^= 0x80000000
		}
		in := append(ref.U32(nil, w), hdr...)
		in = append(in, gen.Bytes(r, r.Intn(8))...)
		cs.Desc = M{"first_word": fmt.Sprintf("%#08x", w), "input_hex": hexOf(in)}
		check := func(which string, err error) {
			if err == nil {
				cs.Fail("bad-version-accepted", M{"reader": which, "followed_by": "a well-formed header"}, M{"first_word": fmt.Sprintf("%#08x", w)})
				return
			}
			if id, ok := typeID(err); !ok || id != int32(4) {
				cs.Fail("bad-version-error-type", M{"reader": which}, M{"first_word": fmt.Sprintf("%#08x", w), "err": errString(err), "type_id": id, "is_protocol_exception": ok})
			}
		}
		_, _, _, _, err := thrift.Binary.ReadMessageBegin(place(in, 0))
		check("Binary.ReadMessageBegin", err)
		rd := bufiox.NewBytesReader(in)
		br := thrift.NewBufferReader(rd)
		_, _, _, err = br.ReadMessageBegin()
		br.Recycle()
		rd.Release(nil)
		check("BufferReader.ReadMessageBegin", err)
		if _, _, err := thrift.UnmarshalFastMsg(in, nil); err == nil {
			cs.Fail("bad-version-accepted", M{"reader": "UnmarshalFastMsg", "followed_by": "a well-formed header"}, M{"first_word": fmt.Sprintf("%#08x", w)})
		}
		cs.Count(true, "framed", w, name)
		cs.C.Obs("unmarked first words in front of a well-formed header", 1)
	})
	// (4) every truncation point of envelopes / messages must be rejected
	c.Stage("truncations", c.Pick(6000, 100000), false, func(cs *drv.Case) {
		r := cs.R
		name := string(gen.Bytes(r, r.Intn(30)))
		if r.Intn(6) == 0 {
			name = string(gen.Bytes(r, 4090+r.Intn(20)))
		}
		env := ref.EncMessageBegin(nil, name, int32(1+r.Intn(4)), gen.I32(r))
		step := 1
		if len(env) > 200 {
			step = 37
		}
		for cut := 0; cut < len(env); cut += step {
			in := place(env[:cut], 0)
			_, _, _, _, err := thrift.Binary.ReadMessageBegin(in)
			if err == nil {
				cs.Fail("truncated-envelope-accepted", M{"reader": "Binary.ReadMessageBegin"}, M{"cut": cut, "len": len(env), "input_hex": hexOf(env[:cut])})
				return
			}
			rd := bufiox.NewDefaultReader(&doubles.Source{Data: env[:cut], Len: cut, ErrAt: cut, Err: io.EOF, Sched: r.Intn(doubles.NSched), R: r, WithData: r.Intn(2) == 0, Budget: 100000 + 10*cut})
			br := thrift.NewBufferReader(rd)
			_, _, _, err = br.ReadMessageBegin()
			br.Recycle()
			rd.Release(nil)
			if err == nil {
				cs.Fail("truncated-envelope-accepted", M{"reader": "BufferReader.ReadMessageBegin"}, M{"cut": cut, "len": len(env), "input_hex": hexOf(env[:cut])})
				return
			}
			// whole messages cut inside the envelope must fail in UnmarshalFastMsg as well
			if _, _, err := thrift.UnmarshalFastMsg(in, base.NewBase()); err == nil {
				cs.Fail("truncated-envelope-accepted", M{"reader": "UnmarshalFastMsg"}, M{"cut": cut, "len": len(env), "input_hex": hexOf(env[:cut])})
				return
			}
		}
		// negative name length
		neg := ref.U32(ref.U32(nil, 0x80010001), uint32(0x80000000)|uint32(r.Intn(1<<20)))
		neg = append(neg, env[8:]...)
		if _, _, _, _, err := thrift.Binary.ReadMessageBegin(place(neg, 0)); err == nil {
			cs.Fail("negative-name-length-accepted", M{"reader": "Binary.ReadMessageBegin"}, M{"input_hex": hexOf(neg)})
		}
		rd := bufiox.NewBytesReader(neg)
		br := thrift.NewBufferReader(rd)
		if _, _, _, err := br.ReadMessageBegin(); err == nil {
			cs.Fail("negative-name-length-accepted", M{"reader": "BufferReader.ReadMessageBegin"}, M{"input_hex": hexOf(neg)})
		}
		br.Recycle()
		cs.Count(true, "trunc", env)
		cs.C.Obs("truncation sweeps", 1)
	})
	// (5) MarshalFastMsg -> UnmarshalFastMsg; EXCEPTION messages surface as errors
	c.Stage("messages", c.Pick(100000, 1000000), false, func(cs *drv.Case) {
		r := cs.R
		method := string(gen.Bytes(r, 1+r.Intn(30)))
		if r.Intn(20) == 0 {
			method = ""
		}
		seq := gen.I32(r)
		mt := []int32{mtCall, mtReply, mtOneway, mtException, 0, 5, 0x10003}[r.Intn(7)]
		payload := &base.BaseResp{StatusMessage: genFieldStr(r), StatusCode: gen.I32(r), Extra: genExtra(r)}
		cs.Desc = M{"method_len": len(method), "seq": seq, "msg_type": mt}
		if mt&0xffff == mtException && method != "" && r.Intn(2) == 0 {
			// an EXCEPTION message built by the independent encoder: fields permuted, unknown and
			// differently-typed fields (incl. ids 1 and 2 with other types) interleaved
			tid := gen.I32(r)
			text := string(gen.Bytes(r, r.Intn(30)))
			known := []kfield{{1, ref.STRING, ref.EncString(nil, text)}, {2, ref.I32, ref.EncI32(nil, tid)}}
			body, shape := buildStruct(r, known, r.Intn(5), true)
			b := append(ref.EncMessageBegin(nil, method, mt, seq), body...)
			victim := &base.BaseResp{StatusMessage: "untouched", StatusCode: 99}
			gm, gs, err := thrift.UnmarshalFastMsg(place(b, 0), victim)
			var ae *thrift.ApplicationException
			if !errors.As(err, &ae) {
				cs.Fail("exception-not-surfaced", M{"via": "hostile-fields"}, M{"err": errString(err), "field_order": shape, "wire_hex": hexOf(b)})
				return
			}
			if ae.TypeID() != tid || ae.Msg() != text || gm != method || gs != seq {
				cs.Fail("exception-content", M{"via": "hostile-fields"}, M{"got_type": ae.TypeID(), "want_type": tid, "got_msg": ae.Msg(), "want_msg": text, "field_order": shape, "wire_hex": hexOf(b)})
				return
			}
			cs.C.Obs("exception messages", 1)
			cs.Count(true, "exc2", shape, b)
			return
		}
		if mt&0xffff == mtException {
			tid := gen.I32(r)
			text := string(gen.Bytes(r, r.Intn(30)))
			ex := thrift.NewApplicationException(tid, text)
			b, err := thrift.MarshalFastMsg(method, mt, seq, ex)
			if method == "" {
				if err == nil {
					cs.C.Obs("empty method accepted by MarshalFastMsg", 1)
				}
				return
			}
			if err != nil {
				cs.Fail("marshal-error", nil, M{"err": errString(err)})
				return
			}
			victim := &base.BaseResp{StatusMessage: "untouched", StatusCode: 99}
			gm, gs, err := thrift.UnmarshalFastMsg(place(b, 0), victim)
			var ae *thrift.ApplicationException
			if !errors.As(err, &ae) {
				cs.Fail("exception-not-surfaced", nil, M{"err": errString(err), "message": "an EXCEPTION message did not come back as *ApplicationException"})
				return
			}
			if ae.TypeID() != tid || ae.Msg() != text || gm != method || gs != seq {
				cs.Fail("exception-content", nil, M{"got_type": ae.TypeID(), "want_type": tid, "got_msg": ae.Msg(), "want_msg": text, "method": gm, "seq": gs})
				return
			}
			if victim.StatusMessage != "untouched" || victim.StatusCode != 99 || victim.Extra != nil {
				cs.Fail("exception-decoded-into-struct", nil, M{"victim": fmt.Sprint(victim)})
			}
			// the caller's struct may itself be an exception type: it still must not be decoded into
			v2 := thrift.NewApplicationException(4242, "caller-owned")
			_, _, err2 := thrift.UnmarshalFastMsg(place(b, 0), v2)
			var ae2 *thrift.ApplicationException
			if !errors.As(err2, &ae2) || ae2.TypeID() != tid || ae2.Msg() != text {
				cs.Fail("exception-not-surfaced", M{"via": "exception-typed-target"}, M{"err": errString(err2)})
			} else if v2.TypeID() != 4242 || v2.Msg() != "caller-owned" || ae2 == v2 {
				cs.Fail("exception-decoded-into-struct", M{"via": "exception-typed-target"}, M{"victim_type": v2.TypeID(), "victim_msg": v2.Msg(), "aliases_error": ae2 == v2})
			}
			v3 := thrift.NewTransportException(7, "t-owned")
			thrift.UnmarshalFastMsg(place(b, 0), v3)
			if v3.TypeID() != 7 || v3.Msg() != "t-owned" {
				cs.Fail("exception-decoded-into-struct", M{"via": "transport-exception-target"}, M{"victim_type": v3.TypeID(), "victim_msg": v3.Msg()})
			}
			// an EXCEPTION message whose body is cut: an error, and still nothing decoded into the caller's struct
			hdr := thrift.Binary.MessageBeginLength(method)
			for cut := hdr; cut < len(b); cut++ {
				v4 := &base.BaseResp{StatusMessage: "untouched", StatusCode: 99}
				_, _, err4 := thrift.UnmarshalFastMsg(place(b[:cut], 0), v4)
				if err4 == nil {
					cs.Fail("truncated-exception-body-accepted", nil, M{"cut": cut, "len": len(b), "input_hex": hexOf(b[:cut])})
					break
				}
				if v4.StatusMessage != "untouched" || v4.StatusCode != 99 || v4.Extra != nil {
					cs.Fail("exception-decoded-into-struct", M{"via": "truncated-body"}, M{"victim": fmt.Sprint(v4), "cut": cut})
					break
				}
				cs.C.Obs("truncated exception bodies", 1)
			}
			// the exception body as other Thrift implementations write it: the two fields in the other order, an
			// unknown field in front, an empty message left out altogether - the same exception
			{
				fMsg := ref.EncString(ref.EncFieldBegin(nil, ref.STRING, 1), text)
				fTid := ref.EncI32(ref.EncFieldBegin(nil, ref.I32, 2), tid)
				fUnk := ref.EncI64(ref.EncFieldBegin(nil, ref.I64, 9), 77)
				bodies := map[string][]byte{
					"type id before message":   append(append(append([]byte(nil), fTid...), fMsg...), 0),
					"unknown field in front":   append(append(append(append([]byte(nil), fUnk...), fMsg...), fTid...), 0),
					"unknown field in between": append(append(append(append([]byte(nil), fTid...), fUnk...), fMsg...), 0),
				}
				if text == "" {
					bodies["empty message left out"] = append(append([]byte(nil), fTid...), 0)
				}
				// ... and fields of other implementations that reuse the ids 1 and 2 with other types are not the message and the type id
				fCol1 := ref.EncI32(ref.EncFieldBegin(nil, ref.I32, 1), 31337)
				fCol2 := ref.EncString(ref.EncFieldBegin(nil, ref.STRING, 2), "not-a-type-id")
				bodies["id 1 reused as i32 in front"] = append(append(append(append([]byte(nil), fCol1...), fMsg...), fTid...), 0)
				bodies["id 2 reused as string behind"] = append(append(append(append([]byte(nil), fMsg...), fTid...), fCol2...), 0)
				for name, body := range bodies {
					msg := append(append([]byte(nil), b[:hdr]...), body...)
					v5 := &base.BaseResp{StatusMessage: "untouched", StatusCode: 99}
					_, _, err5 := thrift.UnmarshalFastMsg(place(msg, 0), v5)
					var ae5 *thrift.ApplicationException
					if !errors.As(err5, &ae5) || ae5.TypeID() != tid || ae5.Msg() != text {
						d := M{"err": errString(err5), "want_type": tid, "want_msg": text, "body_hex": hexOf(body)}
						if ae5 != nil {
							d["got_type"], d["got_msg"] = ae5.TypeID(), ae5.Msg()
						}
						cs.Fail("exception-content", M{"body": name}, d)
						break
					}
					if v5.StatusMessage != "untouched" || v5.StatusCode != 99 {
						cs.Fail("exception-decoded-into-struct", M{"via": name}, M{"victim": fmt.Sprint(v5)})
						break
					}
					cs.C.Obs("exception bodies in other field orders", 1)
				}
			}
			// the payload of an EXCEPTION message may be any of the library's exception kinds (they share the
			// encoding): what comes back carries the payload's type id and text
			for k := 0; k < 3; k++ {
				var pl interface {
					thrift.FastCodec
					TypeId() int32
					Error() string
				}
				switch k {
				case 0:
					pl = thrift.NewTransportException(tid, text)
				case 1:
					pl = thrift.NewProtocolException(tid, text)
				default:
					pl = thrift.NewProtocolExceptionWithErr(errors.New("cause " + text))
				}
				wantID, wantText := pl.TypeId(), pl.Error()
				bb, err := thrift.MarshalFastMsg(method, mt, seq, pl)
				if err != nil {
					cs.Fail("marshal-error", M{"payload": fmt.Sprintf("%T", pl)}, M{"err": errString(err)})
					break
				}
				_, _, err5 := thrift.UnmarshalFastMsg(place(bb, 0), &base.BaseResp{})
				var ae5 *thrift.ApplicationException
				if !errors.As(err5, &ae5) || ae5.TypeId() != wantID || ae5.Error() != wantText {
					cs.Fail("exception-content", M{"payload": []string{"transport", "protocol", "protocol-with-cause"}[k]}, M{"err": errString(err5), "want_type": wantID, "want_text": wantText})
					break
				}
				cs.C.Obs("exception payloads of other kinds", 1)
			}
			cs.C.Obs("exception messages", 1)
			cs.Count(true, "exc", method, seq, tid, text)
			return
		}
		b, err := thrift.MarshalFastMsg(method, mt, seq, payload)
		if method == "" {
			if err == nil {
				cs.C.Obs("empty method accepted by MarshalFastMsg", 1)
			}
			return
		}
		if err != nil {
			cs.Fail("marshal-error", nil, M{"err": errString(err)})
			return
		}
		if len(b) != thrift.Binary.MessageBeginLength(method)+payload.BLength() {
			cs.Fail("marshal-length", nil, M{"len": len(b)})
			return
		}
		if !bytes.HasPrefix(b, ref.EncMessageBegin(nil, method, mt, seq)) {
			cs.Fail("marshal-envelope-bytes", nil, M{"prefix_hex": hexOf(b[:minInt(len(b), 40)])})
			return
		}
		got := base.NewBaseResp()
		gm, gs, err := thrift.UnmarshalFastMsg(place(b, 0), got)
		if err != nil || gm != method || gs != seq || got.StatusMessage != payload.StatusMessage || got.StatusCode != payload.StatusCode || !strMapEq(got.Extra, payload.Extra) {
			cs.Fail("message-roundtrip", nil, M{"err": errString(err), "method_ok": gm == method, "seq_ok": gs == seq, "payload": fmt.Sprintf("%.200q", fmt.Sprint(got))})
			return
		}
		cs.C.Obs("messages round-tripped", 1)
		cs.Count(true, "msg", method, seq, mt, fmt.Sprint(payload))
	})
	// (6) any payload struct: one of the application's own (not a library type) with its own encoder and decoder -
	// a linked chain nested far deeper than the skippers' recursion limit, and large byte fields
	c.Stage("foreign-payloads", c.Pick(300, 6000), false, func(cs *drv.Case) {
		r := cs.R
		depth := []int{1, 2, 63, 64, 65, 80, 200, 1000}[r.Intn(8)]
		var head *chainNode
		for k := 0; k < depth; k++ {
			head = &chainNode{Val: gen.I32(r), Blob: gen.Bytes(r, []int{0, 3, 4095, 4096, 5000}[r.Intn(5)]*boolInt(k < 3)), Next: head}
		}
		method := "m" + string(gen.Bytes(r, r.Intn(9)))
		seq := gen.I32(r)
		mt := int32(1 + r.Intn(2)*1) // CALL or REPLY
		cs.Desc = M{"payload": "application struct (linked chain)", "nesting": depth, "blength": head.BLength()}
		b, err := thrift.MarshalFastMsg(method, thrift.TMessageType(mt), seq, head)
		if err != nil {
			cs.Fail("marshal-error", M{"payload": "foreign"}, M{"err": errString(err)})
			return
		}
		if len(b) != thrift.Binary.MessageBeginLength(method)+head.BLength() {
			cs.Fail("marshal-length", M{"payload": "foreign"}, M{"len": len(b), "want": thrift.Binary.MessageBeginLength(method) + head.BLength()})
			return
		}
		got := &chainNode{}
		gm, gs, err := thrift.UnmarshalFastMsg(place(b, 0), got)
		if err != nil || gm != method || gs != seq || !got.equal(head) {
			cs.Fail("message-roundtrip", M{"payload": "foreign"}, M{"err": errString(err), "method_ok": gm == method, "seq_ok": gs == seq, "nesting": depth,
				"message": "a message whose payload is an application struct with its own codec did not come back as it was marshalled"})
			return
		}
		if fm := thrift.FastMarshal(head); !bytes.Equal(fm, b[thrift.Binary.MessageBeginLength(method):]) {
			cs.Fail("marshal-length", M{"payload": "foreign", "via": "FastMarshal"}, M{"message": "FastMarshal of the payload differs from the payload part of the message"})
			return
		}
		back := &chainNode{}
		if err := thrift.FastUnmarshal(b[thrift.Binary.MessageBeginLength(method):], back); err != nil || !back.equal(head) {
			cs.Fail("message-roundtrip", M{"payload": "foreign", "via": "FastUnmarshal"}, M{"err": errString(err)})
			return
		}
		cs.Count(true, "foreign", depth, method, seq)
		cs.C.Obs("messages with an application-defined payload round-tripped", 1)
	})
}

func boolInt(b bool) int {
	if b {
		return 1
	}
	return 0
}

// chainNode is a payload struct of the application with a hand-written codec: struct { 1: i32 val; 2: binary blob; 3: optional chainNode next }.
type chainNode struct {
	Val  int32
	Blob []byte
	Next *chainNode
}

func (n *chainNode) BLength() int {
	l := 3 + 4 + 3 + 4 + len(n.Blob) + 1
	if n.Next != nil {
		l += 3 + n.Next.BLength()
	}
	return l
}

func (n *chainNode) FastWriteNocopy(b []byte, _ thrift.NocopyWriter) int {
	out := ref.EncI32(ref.EncFieldBegin(b[:0], ref.I32, 1), n.Val)
	out = ref.EncBinary(ref.EncFieldBegin(out, ref.STRING, 2), n.Blob)
	off := len(out)
	if n.Next != nil {
		out = ref.EncFieldBegin(out, ref.STRUCT, 3)
		off = len(out)
		off += n.Next.FastWriteNocopy(b[off:], nil)
	}
	b[off] = 0
	return off + 1
}

func (n *chainNode) FastRead(b []byte) (int, error) {
	off := 0
	for {
		if off >= len(b) {
			return off, errors.New("chainNode: truncated")
		}
		t := b[off]
		off++
		if t == 0 {
			return off, nil
		}
		if off+2 > len(b) {
			return off, errors.New("chainNode: truncated")
		}
		id := int(b[off])<<8 | int(b[off+1])
		off += 2
		switch {
		case t == ref.I32 && id == 1 && off+4 <= len(b):
			n.Val = int32(uint32(b[off])<<24 | uint32(b[off+1])<<16 | uint32(b[off+2])<<8 | uint32(b[off+3]))
			off += 4
		case t == ref.STRING && id == 2 && off+4 <= len(b):
			l := int(uint32(b[off])<<24 | uint32(b[off+1])<<16 | uint32(b[off+2])<<8 | uint32(b[off+3]))
			off += 4
			if l < 0 || off+l > len(b) {
				return off, errors.New("chainNode: bad blob")
			}
			n.Blob = append([]byte(nil), b[off:off+l]...)
			off += l
		case t == ref.STRUCT && id == 3:
			n.Next = &chainNode{}
			l, err := n.Next.FastRead(b[off:])
			off += l
			if err != nil {
				return off, err
			}
		default:
			return off, fmt.Errorf("chainNode: unexpected field (%d, %d)", t, id)
		}
	}
}

func (n *chainNode) equal(o *chainNode) bool {
	for n != nil && o != nil {
		if n.Val != o.Val || !bytes.Equal(n.Blob, o.Blob) {
			return false
		}
		n, o = n.Next, o.Next
	}
	return n == nil && o == nil
}
