// Package mon holds one monitor per property. Every monitor drives the real code of
// /repo through its public API and judges each observed result with an oracle from ref.
package mon

import (
	"bytes"
	"errors"
	"fmt"
	"io"
	"math/rand"
	"unsafe"

	"github.com/cloudwego/gopkg/bufiox"
	"github.com/cloudwego/gopkg/protocol/thrift"
	"github.com/cloudwego/gopkg/protocol/thrift/base"

	"verifharness/doubles"
	"verifharness/drv"
	"verifharness/ref"
	"verifharness/san"
)

type M = map[string]interface{}

// outcome of one skipper on one input
type skipOut struct {
	ok    bool
	n     int
	err   error
	panic interface{}
	note  string // content/position mismatch observed by the runner itself
	ran   bool
	// secondCall describes a disagreement of a follow-up call on the same decoder instance
	secondCall string
}

func (o skipOut) String() string {
	switch {
	case !o.ran:
		return "not-run"
	case o.panic != nil:
		return fmt.Sprintf("PANIC(%v)", o.panic)
	case o.ok:
		if o.note != "" {
			return fmt.Sprintf("ok(%d) %s", o.n, o.note)
		}
		return fmt.Sprintf("ok(%d)", o.n)
	}
	return fmt.Sprintf("err(%v)", o.err)
}

func guarded(f func() skipOut) (o skipOut) {
	defer func() {
		if r := recover(); r != nil {
			o = skipOut{panic: r, ran: true}
		}
	}()
	o = f()
	o.ran = true
	return
}

const (
	skBinary = iota
	skBufReaderNB
	skSkipDecNB
	skBytesDec
	skReaderDec
	skBufReaderDR
	skSkipDecDR
	skBufReaderBR
	skSkipDecBR
	nSkippers
)

var skipperNames = []string{"Binary.Skip", "BufferReader.Skip/NB", "SkipDecoder/NB", "BytesSkipDecoder", "ReaderSkipDecoder", "BufferReader.Skip/DefaultReader", "SkipDecoder/DefaultReader", "BufferReader.Skip/BytesReader", "SkipDecoder/BytesReader"}

// runSkipper runs one skipping facility on b (type t). For the stream-backed ones sched
// selects the fragmentation; withData delivers io.EOF together with the last chunk.
func runSkipper(which int, b []byte, t byte, r *rand.Rand, sched int, withData bool) skipOut {
	tt := thrift.TType(t)
	switch which {
	case skBinary:
		return guarded(func() skipOut {
			n, err := thrift.Binary.Skip(b, tt)
			return skipOut{ok: err == nil, n: n, err: err}
		})
	case skBufReaderNB:
		return guarded(func() skipOut {
			nb := &doubles.NBReader{B: b}
			br := thrift.NewBufferReader(nb)
			defer br.Recycle()
			err := br.Skip(tt)
			o := skipOut{ok: err == nil, n: nb.RI, err: err}
			if err == nil && br.Readn() != int64(nb.RI) {
				o.note = "Readn != reader position"
			}
			return o
		})
	case skSkipDecNB:
		return guarded(func() skipOut {
			nb := &doubles.NBReader{B: b}
			d := thrift.NewSkipDecoder(nb)
			defer d.Release()
			out, err := d.Next(tt)
			o := skipOut{ok: err == nil, n: len(out), err: err}
			if err == nil {
				if len(out) > len(b) || !bytes.Equal(out, b[:len(out)]) {
					o.note = "returned bytes differ from input prefix"
				} else if nb.RI != len(out) {
					o.note = fmt.Sprintf("reader consumed %d, returned %d bytes", nb.RI, len(out))
				}
			} else if nb.RI == 0 {
				// a rejected Next consumed nothing from the reader: a second Next on the same decoder
				// starts from the same stream position and must agree with the grammar again
				for _, t2 := range []byte{ref.BYTE, ref.I32, ref.I64, ref.STRING} {
					p2 := ref.Parse(b, t2)
					out2, err2 := d.Next(thrift.TType(t2))
					if p2.OK && (err2 != nil || len(out2) != p2.N) {
						o.secondCall = fmt.Sprintf("after a rejected Next(type %d), Next(type %d) on the same decoder returned %d bytes err=%v; the grammar gives %d", t, t2, len(out2), err2, p2.N)
						break
					}
					if !p2.OK && err2 == nil {
						o.secondCall = fmt.Sprintf("after a rejected Next(type %d), Next(type %d) on the same decoder accepted %d bytes of a malformed value", t, t2, len(out2))
						break
					}
					if err2 == nil {
						break // the reader advanced: later calls see other bytes
					}
				}
			}
			return o
		})
	case skBytesDec:
		return guarded(func() skipOut {
			d := thrift.NewBytesSkipDecoder(b)
			defer d.Release()
			out, err := d.Next(tt)
			o := skipOut{ok: err == nil, n: len(out), err: err}
			if err == nil && (len(out) > len(b) || !bytes.Equal(out, b[:len(out)])) {
				o.note = "returned bytes differ from input prefix"
			}
			if err != nil {
				// a rejected Next consumed nothing: a second Next on the same decoder sees the same bytes
				for _, t2 := range []byte{ref.BYTE, ref.I32, ref.I64, ref.STRING} {
					p2 := ref.Parse(b, t2)
					out2, err2 := d.Next(thrift.TType(t2))
					if p2.OK && (err2 != nil || len(out2) != p2.N || !bytes.Equal(out2, b[:p2.N])) {
						o.secondCall = fmt.Sprintf("after a rejected Next(type %d), Next(type %d) on the same BytesSkipDecoder returned %d bytes err=%v; the grammar gives %d", t, t2, len(out2), err2, p2.N)
						break
					}
					if !p2.OK && err2 == nil {
						o.secondCall = fmt.Sprintf("after a rejected Next(type %d), Next(type %d) on the same BytesSkipDecoder accepted %d bytes of a malformed value", t, t2, len(out2))
						break
					}
					if err2 == nil {
						break
					}
				}
			}
			return o
		})
	case skReaderDec:
		return guarded(func() skipOut {
			src := &doubles.Source{Data: b, Len: len(b), ErrAt: len(b), Err: io.EOF, Sched: sched, R: r, WithData: withData, Budget: 10*len(b) + 100000}
			if len(b) <= 400 && r.Intn(4) == 0 {
				src.Churn = func() { san.PoolChurn(2048) } // the reader itself uses the shared pool
			}
			switch r.Intn(6) {
			case 0:
				src.ZeroMax = 2
			case 1:
				if len(b) < 2000 {
					src.ZeroRun = 1 + r.Intn(2) // many empty reads inside one value, with progress in between
					src.Budget += src.ZeroRun * (len(b) + 100)
				}
			}
			d := thrift.NewReaderSkipDecoder(src)
			defer d.Release()
			out, err := d.Next(tt)
			o := skipOut{ok: err == nil, n: len(out), err: err}
			if err == nil {
				if len(out) > len(b) || !bytes.Equal(out, b[:len(out)]) {
					o.note = "returned bytes differ from input prefix"
				} else if src.Pos != len(out) {
					o.note = fmt.Sprintf("source position %d after a %d-byte value (read-ahead or loss)", src.Pos, len(out))
				}
			}
			if src.Exhausted {
				o.note = "source read budget exhausted (non-termination)"
				o.ok = true // force a judgement
			}
			return o
		})
	case skBufReaderDR:
		return guarded(func() skipOut {
			src := &doubles.Source{Data: b, Len: len(b), ErrAt: len(b), Err: io.EOF, Sched: sched, R: r, WithData: withData, ZeroMax: 2, Budget: 10*len(b) + 100000}
			dr := bufiox.NewDefaultReader(src)
			br := thrift.NewBufferReader(dr)
			defer br.Recycle()
			err := br.Skip(tt)
			o := skipOut{ok: err == nil, n: dr.ReadLen(), err: err}
			if err == nil {
				// the bytes that follow must be exactly the rest of the stream
				rest := len(b) - o.n
				if rest < 0 {
					o.note = "ReadLen beyond the stream"
				} else {
					k := rest
					if k > 64 {
						k = 64
					}
					nx, e := dr.Next(k)
					if e != nil || !bytes.Equal(nx, b[o.n:o.n+k]) {
						o.note = fmt.Sprintf("bytes after the skipped value are not the next stream bytes (err=%v)", e)
					}
				}
			}
			dr.Release(nil)
			return o
		})
	case skSkipDecDR:
		return guarded(func() skipOut {
			src := &doubles.Source{Data: b, Len: len(b), ErrAt: len(b), Err: io.EOF, Sched: sched, R: r, WithData: withData, ZeroMax: 2, Budget: 10*len(b) + 100000}
			dr := bufiox.NewDefaultReader(src)
			d := thrift.NewSkipDecoder(dr)
			defer d.Release()
			out, err := d.Next(tt)
			o := skipOut{ok: err == nil, n: len(out), err: err}
			if err == nil {
				if len(out) > len(b) || !bytes.Equal(out, b[:len(out)]) {
					o.note = "returned bytes differ from input prefix"
				} else if dr.ReadLen() != len(out) {
					o.note = fmt.Sprintf("ReadLen %d after a %d-byte value", dr.ReadLen(), len(out))
				} else {
					k := len(b) - len(out)
					if k > 64 {
						k = 64
					}
					nx, e := dr.Next(k)
					if e != nil || !bytes.Equal(nx, b[len(out):len(out)+k]) {
						o.note = fmt.Sprintf("bytes after the value are not the next stream bytes (err=%v)", e)
					}
				}
			}
			dr.Release(nil)
			return o
		})
	case skBufReaderBR:
		// the library's own bytes-backed reader: everything there will ever be is in the slice, so nothing
		// has to be buffered and every declared size can be judged
		return guarded(func() skipOut {
			rd := bufiox.NewBytesReader(b)
			br := thrift.NewBufferReader(rd)
			defer br.Recycle()
			err := br.Skip(tt)
			o := skipOut{ok: err == nil, n: rd.ReadLen(), err: err}
			if err == nil {
				if br.Readn() != int64(o.n) {
					o.note = "Readn != ReadLen"
				} else if o.n <= len(b) {
					k := len(b) - o.n
					if k > 64 {
						k = 64
					}
					nx, e := rd.Next(k)
					if e != nil || !bytes.Equal(nx, b[o.n:o.n+k]) {
						o.note = fmt.Sprintf("bytes after the skipped value are not the next input bytes (err=%v)", e)
					}
				}
			}
			rd.Release(nil)
			return o
		})
	case skSkipDecBR:
		return guarded(func() skipOut {
			rd := bufiox.NewBytesReader(b)
			d := thrift.NewSkipDecoder(rd)
			defer d.Release()
			out, err := d.Next(tt)
			o := skipOut{ok: err == nil, n: len(out), err: err}
			if err == nil {
				if len(out) > len(b) || !bytes.Equal(out, b[:len(out)]) {
					o.note = "returned bytes differ from input prefix"
				} else if rd.ReadLen() != len(out) {
					o.note = fmt.Sprintf("ReadLen %d after a %d-byte value", rd.ReadLen(), len(out))
				}
			}
			rd.Release(nil)
			return o
		})
	}
	panic("bad skipper")
}

// allocates reports whether the skipper buffers what the input declares.
func allocates(which int) bool {
	return which == skReaderDec || which == skBufReaderDR || which == skSkipDecDR
}

func errString(err error) string {
	if err == nil {
		return "<nil>"
	}
	return err.Error()
}

// typeID returns the protocol-exception type id of err, if it is (or wraps) one.
func typeID(err error) (int32, bool) {
	var pe *thrift.ProtocolException
	if errors.As(err, &pe) {
		return pe.TypeId(), true
	}
	return 0, false
}

func causeNames(c int) []string {
	var out []string
	if c&ref.CTrunc != 0 {
		out = append(out, "TRUNCATED")
	}
	if c&ref.CNeg != 0 {
		out = append(out, "NEGATIVE")
	}
	if c&ref.CUnknown != 0 {
		out = append(out, "UNKNOWN_TYPE")
	}
	if c&ref.CDepth != 0 {
		out = append(out, "DEPTH")
	}
	return out
}

// arenas per worker (lazily created)
var theArena *san.Arena

func arena() *san.Arena {
	if theArena == nil {
		theArena = san.NewArena(1 << 20)
	}
	return theArena
}

// place copies b into the guard-page arena (0: end placement, 1: start placement).
func place(b []byte, where int) []byte {
	a := arena()
	if len(b) > a.Cap() {
		return append([]byte(nil), b...)
	}
	if len(b) == 0 {
		if where == 0 {
			return a.EmptyAtEnd()
		}
		return a.AtStart(b)
	}
	if where == 0 {
		return a.AtEnd(b)
	}
	return a.AtStart(b)
}

func hexOf(b []byte) string { return drv.FullHex(b) }

func isFaultPanic(p interface{}) bool {
	_, ok := san.IsFault(p)
	return ok
}

// ---- inputs that live on a goroutine stack which moves while the library recurses ----

// stackSkipResult is what stackSkip observed.
type stackSkipResult struct {
	n       int
	err     error
	panic   interface{}
	onStack bool // the input really was on the goroutine stack (within 1 MiB of a local variable)
}

// stackSkip copies in (at most 1024 bytes) into a LOCAL array of a fresh goroutine, after burning pad small
// frames so that the stack has to grow at a different recursion level of the library for every pad, and
// calls Binary.Skip on it. Binary.Skip does not let its argument escape, so the array stays on the stack
// and is moved with it. Nothing in this function may make buf escape (no interface conversions of it).
func stackSkip(in []byte, t byte, pad int) stackSkipResult {
	var res stackSkipResult
	done := make(chan struct{})
	go func() {
		defer close(done)
		defer func() {
			if r := recover(); r != nil {
				res.panic = r
			}
		}()
		stackSkipRun(in, thrift.TType(t), pad, &res)
	}()
	<-done
	return res
}

//go:noinline
func stackSkipRun(in []byte, t thrift.TType, pad int, res *stackSkipResult) {
	if pad > 0 {
		var x [64]byte
		x[pad%64] = byte(pad)
		stackSkipRun(in, t, pad-1, res)
		if x[pad%64] != byte(pad) {
			panic("stack padding damaged")
		}
		return
	}
	var buf [1024]byte
	var marker byte
	l := copy(buf[:], in)
	d := int64(uintptr(unsafe.Pointer(&buf[0]))) - int64(uintptr(unsafe.Pointer(&marker)))
	res.onStack = d > -(1<<20) && d < 1<<20
	res.n, res.err = thrift.Binary.Skip(buf[:l], t)
}

// stackFastRead is stackSkip for the shipped FastRead structs: which = 0 Base, 1 BaseResp, 2 ApplicationException.
func stackFastRead(in []byte, which int, pad int) stackSkipResult {
	var res stackSkipResult
	done := make(chan struct{})
	go func() {
		defer close(done)
		defer func() {
			if r := recover(); r != nil {
				res.panic = r
			}
		}()
		stackFastReadRun(in, which, pad, &res)
	}()
	<-done
	return res
}

//go:noinline
func stackFastReadRun(in []byte, which int, pad int, res *stackSkipResult) {
	if pad > 0 {
		var x [64]byte
		x[pad%64] = byte(pad)
		stackFastReadRun(in, which, pad-1, res)
		if x[pad%64] != byte(pad) {
			panic("stack padding damaged")
		}
		return
	}
	var buf [1024]byte
	var marker byte
	l := copy(buf[:], in)
	d := int64(uintptr(unsafe.Pointer(&buf[0]))) - int64(uintptr(unsafe.Pointer(&marker)))
	res.onStack = d > -(1<<20) && d < 1<<20
	switch which {
	case 0:
		res.n, res.err = base.NewBase().FastRead(buf[:l])
	case 1:
		res.n, res.err = base.NewBaseResp().FastRead(buf[:l])
	default:
		res.n, res.err = thrift.NewApplicationException(0, "").FastRead(buf[:l])
	}
}
