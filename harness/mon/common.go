// Package mon holds one monitor per property. Every monitor drives the real code of
// /repo through its public API and judges each observed result with an oracle from ref.
package mon

import (
	"bytes"
	"errors"
	"fmt"
	"io"
	"math/rand"
	"unsafe"

	"github.com/cloudwego/gopkg/bufiox"
	"github.com/cloudwego/gopkg/protocol/thrift"
	"github.com/cloudwego/gopkg/protocol/thrift/base"

	"verifharness/doubles"
	"verifharness/drv"
	"verifharness/gen"
	"verifharness/ref"
	"verifharness/san"
)

type M = map[string]interface{}

// outcome of one skipper on one input
type skipOut struct {
	ok    bool
	n     int
	err   error
	panic interface{}
	note  string // content/position mismatch observed by the runner itself
	ran   bool
	// secondCall describes a disagreement of a follow-up call on the same decoder instance
	secondCall string
}

func (o skipOut) String() string {
	switch {
	case !o.ran:
		return "not-run"
	case o.panic != nil:
		return fmt.Sprintf("PANIC(%v)", o.panic)
	case o.ok:
		if o.note != "" {
			return fmt.Sprintf("ok(%d) %s", o.n, o.note)
		}
		return fmt.Sprintf("ok(%d)", o.n)
	}
	return fmt.Sprintf("err(%v)", o.err)
}

func guarded(f func() skipOut) (o skipOut) {
	defer func() {
		if r := recover(); r != nil {
			o = skipOut{panic: r, ran: true}
		}
	}()
	o = f()
	o.ran = true
	return
}

const (
	skBinary = iota
	skBufReaderNB
	skSkipDecNB
	skBytesDec
	skReaderDec
	skBufReaderDR
	skSkipDecDR
	skBufReaderBR
	skSkipDecBR
	nSkippers
)

var skipperNames = []string{"Binary.Skip", "BufferReader.Skip/NB", "SkipDecoder/NB", "BytesSkipDecoder", "ReaderSkipDecoder", "BufferReader.Skip/DefaultReader", "SkipDecoder/DefaultReader", "BufferReader.Skip/BytesReader", "SkipDecoder/BytesReader"}

// runSkipper runs one skipping facility on b (type t). For the stream-backed ones sched
// selects the fragmentation; withData delivers io.EOF together with the last chunk.
func runSkipper(which int, b []byte, t byte, r *rand.Rand, sched int, withData bool) skipOut {
	tt := thrift.TType(t)
	switch which {
	case skBinary:
		return guarded(func() skipOut {
			n, err := thrift.Binary.Skip(b, tt)
			return skipOut{ok: err == nil, n: n, err: err}
		})
	case skBufReaderNB:
		return guarded(func() skipOut {
			nb := &doubles.NBReader{B: b}
			br := thrift.NewBufferReader(nb)
			defer br.Recycle()
			err := br.Skip(tt)
			o := skipOut{ok: err == nil, n: nb.RI, err: err}
			if err == nil && br.Readn() != int64(nb.RI) {
				o.note = "Readn != reader position"
			}
			if err != nil {
				// the same BufferReader goes on with what the stream delivers next: a well-formed value
				// nested 40..63 levels must be skipped exactly, whatever the rejected call left behind
				if o.secondCall = bufReaderAfterRejection(br, nb, r); o.secondCall != "" {
					o.secondCall = fmt.Sprintf("after a rejected Skip(type %d): %s", t, o.secondCall)
				}
			}
			return o
		})
	case skSkipDecNB:
		return guarded(func() skipOut {
			nb := &doubles.NBReader{B: b}
			d := thrift.NewSkipDecoder(nb)
			defer d.Release()
			out, err := d.Next(tt)
			o := skipOut{ok: err == nil, n: len(out), err: err}
			if err == nil {
				if len(out) > len(b) || !bytes.Equal(out, b[:len(out)]) {
					o.note = "returned bytes differ from input prefix"
				} else if nb.RI != len(out) {
					o.note = fmt.Sprintf("reader consumed %d, returned %d bytes", nb.RI, len(out))
				}
			} else if nb.RI == 0 {
				// a rejected Next consumed nothing from the reader: a second Next on the same decoder
				// starts from the same stream position and must agree with the grammar again
				for _, t2 := range []byte{ref.BYTE, ref.I32, ref.I64, ref.STRING} {
					p2 := ref.Parse(b, t2)
					out2, err2 := d.Next(thrift.TType(t2))
					if p2.OK && (err2 != nil || len(out2) != p2.N) {
						o.secondCall = fmt.Sprintf("after a rejected Next(type %d), Next(type %d) on the same decoder returned %d bytes err=%v; the grammar gives %d", t, t2, len(out2), err2, p2.N)
						break
					}
					if !p2.OK && err2 == nil {
						o.secondCall = fmt.Sprintf("after a rejected Next(type %d), Next(type %d) on the same decoder accepted %d bytes of a malformed value", t, t2, len(out2))
						break
					}
					if err2 == nil {
						break // the reader advanced: later calls see other bytes
					}
				}
			}
			return o
		})
	case skBytesDec:
		return guarded(func() skipOut {
			d := thrift.NewBytesSkipDecoder(b)
			defer d.Release()
			out, err := d.Next(tt)
			o := skipOut{ok: err == nil, n: len(out), err: err}
			if err == nil && (len(out) > len(b) || !bytes.Equal(out, b[:len(out)])) {
				o.note = "returned bytes differ from input prefix"
			}
			if err != nil {
				// a rejected Next consumed nothing: a second Next on the same decoder sees the same bytes
				for _, t2 := range []byte{ref.BYTE, ref.I32, ref.I64, ref.STRING} {
					p2 := ref.Parse(b, t2)
					out2, err2 := d.Next(thrift.TType(t2))
					if p2.OK && (err2 != nil || len(out2) != p2.N || !bytes.Equal(out2, b[:p2.N])) {
						o.secondCall = fmt.Sprintf("after a rejected Next(type %d), Next(type %d) on the same BytesSkipDecoder returned %d bytes err=%v; the grammar gives %d", t, t2, len(out2), err2, p2.N)
						break
					}
					if !p2.OK && err2 == nil {
						o.secondCall = fmt.Sprintf("after a rejected Next(type %d), Next(type %d) on the same BytesSkipDecoder accepted %d bytes of a malformed value", t, t2, len(out2))
						break
					}
					if err2 == nil {
						break
					}
				}
			}
			return o
		})
	case skReaderDec:
		return guarded(func() skipOut {
			src := &doubles.Source{Data: b, Len: len(b), ErrAt: len(b), Err: io.EOF, Sched: sched, R: r, WithData: withData, Budget: 10*len(b) + 100000}
			if len(b) <= 400 && r.Intn(4) == 0 {
				src.Churn = func() { san.PoolChurn(2048) } // the reader itself uses the shared pool
			}
			switch r.Intn(6) {
			case 0:
				src.ZeroMax = 2
			case 1:
				if len(b) < 2000 {
					src.ZeroRun = 1 + r.Intn(2) // many empty reads inside one value, with progress in between
					src.Budget += src.ZeroRun * (len(b) + 100)
				}
			}
			var rdr io.Reader = src
			if r.Intn(5) == 0 {
				rdr = &doubles.LenReader{Reader: src, Staged: r.Intn(6)} // a Len method that means something else
			}
			d := thrift.NewReaderSkipDecoder(rdr)
			defer d.Release()
			out, err := d.Next(tt)
			o := skipOut{ok: err == nil, n: len(out), err: err}
			if err == nil {
				if len(out) > len(b) || !bytes.Equal(out, b[:len(out)]) {
					o.note = "returned bytes differ from input prefix"
				} else if src.Pos != len(out) {
					o.note = fmt.Sprintf("source position %d after a %d-byte value (read-ahead or loss)", src.Pos, len(out))
				}
			}
			if src.Exhausted {
				o.note = "source read budget exhausted (non-termination)"
				o.ok = true // force a judgement
			}
			return o
		})
	case skBufReaderDR:
		return guarded(func() skipOut {
			var src io.Reader = &doubles.Source{Data: b, Len: len(b), ErrAt: len(b), Err: io.EOF, Sched: sched, R: r, WithData: withData, ZeroMax: 2, Budget: 10*len(b) + 100000}
			if r.Intn(4) == 0 {
				// a standard-library reader holding the stream: it can do more than Read (Seek, Len, WriteTo, ReadAt...)
				src = stdSource(1+r.Intn(nStdSources), b)
			}
			dr := bufiox.NewDefaultReader(src)
			br := thrift.NewBufferReader(dr)
			defer br.Recycle()
			err := br.Skip(tt)
			o := skipOut{ok: err == nil, n: dr.ReadLen(), err: err}
			if err == nil {
				// the bytes that follow must be exactly the rest of the stream
				rest := len(b) - o.n
				if rest < 0 {
					o.note = "ReadLen beyond the stream"
				} else {
					k := rest
					if k > 64 {
						k = 64
					}
					nx, e := dr.Next(k)
					if e != nil || !bytes.Equal(nx, b[o.n:o.n+k]) {
						o.note = fmt.Sprintf("bytes after the skipped value are not the next stream bytes (err=%v)", e)
					}
				}
			}
			dr.Release(nil)
			return o
		})
	case skSkipDecDR:
		return guarded(func() skipOut {
			var src io.Reader = &doubles.Source{Data: b, Len: len(b), ErrAt: len(b), Err: io.EOF, Sched: sched, R: r, WithData: withData, ZeroMax: 2, Budget: 10*len(b) + 100000}
			if r.Intn(4) == 0 {
				// a standard-library reader holding the stream: it can do more than Read (Seek, Len, WriteTo, ReadAt...)
				src = stdSource(1+r.Intn(nStdSources), b)
			}
			dr := bufiox.NewDefaultReader(src)
			d := thrift.NewSkipDecoder(dr)
			defer d.Release()
			out, err := d.Next(tt)
			o := skipOut{ok: err == nil, n: len(out), err: err}
			if err == nil {
				if len(out) > len(b) || !bytes.Equal(out, b[:len(out)]) {
					o.note = "returned bytes differ from input prefix"
				} else if dr.ReadLen() != len(out) {
					o.note = fmt.Sprintf("ReadLen %d after a %d-byte value", dr.ReadLen(), len(out))
				} else {
					k := len(b) - len(out)
					if k > 64 {
						k = 64
					}
					nx, e := dr.Next(k)
					if e != nil || !bytes.Equal(nx, b[len(out):len(out)+k]) {
						o.note = fmt.Sprintf("bytes after the value are not the next stream bytes (err=%v)", e)
					}
				}
			}
			dr.Release(nil)
			return o
		})
	case skBufReaderBR:
		// the library's own bytes-backed reader: everything there will ever be is in the slice, so nothing
		// has to be buffered and every declared size can be judged
		return guarded(func() skipOut {
			rd := bufiox.NewBytesReader(b)
			br := thrift.NewBufferReader(rd)
			defer br.Recycle()
			err := br.Skip(tt)
			o := skipOut{ok: err == nil, n: rd.ReadLen(), err: err}
			if err == nil {
				if br.Readn() != int64(o.n) {
					o.note = "Readn != ReadLen"
				} else if o.n <= len(b) {
					k := len(b) - o.n
					if k > 64 {
						k = 64
					}
					nx, e := rd.Next(k)
					if e != nil || !bytes.Equal(nx, b[o.n:o.n+k]) {
						o.note = fmt.Sprintf("bytes after the skipped value are not the next input bytes (err=%v)", e)
					}
				}
			}
			rd.Release(nil)
			return o
		})
	case skSkipDecBR:
		return guarded(func() skipOut {
			rd := bufiox.NewBytesReader(b)
			d := thrift.NewSkipDecoder(rd)
			defer d.Release()
			out, err := d.Next(tt)
			o := skipOut{ok: err == nil, n: len(out), err: err}
			if err == nil {
				if len(out) > len(b) || !bytes.Equal(out, b[:len(out)]) {
					o.note = "returned bytes differ from input prefix"
				} else if rd.ReadLen() != len(out) {
					o.note = fmt.Sprintf("ReadLen %d after a %d-byte value", rd.ReadLen(), len(out))
				}
			}
			rd.Release(nil)
			return o
		})
	}
	panic("bad skipper")
}

// allocates reports whether the skipper buffers what the input declares.
func allocates(which int) bool {
	return which == skReaderDec || which == skBufReaderDR || which == skSkipDecDR
}

func errString(err error) string {
	if err == nil {
		return "<nil>"
	}
	return err.Error()
}

// typeID returns the protocol-exception type id of err, if it is (or wraps) one.
func typeID(err error) (int32, bool) {
	var pe *thrift.ProtocolException
	if errors.As(err, &pe) {
		return pe.TypeId(), true
	}
	return 0, false
}

func causeNames(c int) []string {
	var out []string
	if c&ref.CTrunc != 0 {
		out = append(out, "TRUNCATED")
	}
	if c&ref.CNeg != 0 {
		out = append(out, "NEGATIVE")
	}
	if c&ref.CUnknown != 0 {
		out = append(out, "UNKNOWN_TYPE")
	}
	if c&ref.CDepth != 0 {
		out = append(out, "DEPTH")
	}
	return out
}

// arenas per worker (lazily created)
var theArena *san.Arena

func arena() *san.Arena {
	if theArena == nil {
		theArena = san.NewArena(1 << 20)
	}
	return theArena
}

var theROArena *san.ROArena

// placeReadOnly copies b into write-protected pages (ending at a guard page): for inputs that live in memory
// nobody may write to (a mapped file, a string's bytes). ok is false when b does not fit or is empty.
func placeReadOnly(b []byte) (in []byte, ok bool) {
	if theROArena == nil {
		theROArena = san.NewROArena(1 << 18)
	}
	if len(b) == 0 || len(b) > theROArena.Cap() {
		return nil, false
	}
	return theROArena.Set(b), true
}

// isWriteToInputPanic: a fault inside the write-protected input arena (reads there succeed, so it was a store).
func isWriteToInputPanic(p interface{}) bool {
	addr, ok := san.IsFault(p)
	return ok && theROArena != nil && theROArena.InBody(addr)
}

// place copies b into the guard-page arena (0: end placement, 1: start placement).
func place(b []byte, where int) []byte {
	a := arena()
	if len(b) > a.Cap() {
		return append([]byte(nil), b...)
	}
	if len(b) == 0 {
		if where == 0 {
			return a.EmptyAtEnd()
		}
		return a.AtStart(b)
	}
	if where == 0 {
		return a.AtEnd(b)
	}
	return a.AtStart(b)
}

func hexOf(b []byte) string { return drv.FullHex(b) }

func isFaultPanic(p interface{}) bool {
	_, ok := san.IsFault(p)
	return ok
}

// ---- inputs that live on a goroutine stack which moves while the library recurses ----

// stackSkipResult is what stackSkip observed.
type stackSkipResult struct {
	n       int
	err     error
	panic   interface{}
	onStack bool // the input really was on the goroutine stack (within 1 MiB of a local variable)
}

// stackSkip copies in (at most 1024 bytes) into a LOCAL array of a fresh goroutine, after burning pad small
// frames so that the stack has to grow at a different recursion level of the library for every pad, and
// calls Binary.Skip on it. Binary.Skip does not let its argument escape, so the array stays on the stack
// and is moved with it. Nothing in this function may make buf escape (no interface conversions of it).
func stackSkip(in []byte, t byte, pad int) stackSkipResult {
	var res stackSkipResult
	done := make(chan struct{})
	go func() {
		defer close(done)
		defer func() {
			if r := recover(); r != nil {
				res.panic = r
			}
		}()
		stackSkipRun(in, thrift.TType(t), pad, &res)
	}()
	<-done
	return res
}

//go:noinline
func stackSkipRun(in []byte, t thrift.TType, pad int, res *stackSkipResult) {
	if pad > 0 {
		var x [64]byte
		x[pad%64] = byte(pad)
		stackSkipRun(in, t, pad-1, res)
		if x[pad%64] != byte(pad) {
			panic("stack padding damaged")
		}
		return
	}
	var buf [1024]byte
	var marker byte
	l := copy(buf[:], in)
	d := int64(uintptr(unsafe.Pointer(&buf[0]))) - int64(uintptr(unsafe.Pointer(&marker)))
	res.onStack = d > -(1<<20) && d < 1<<20
	res.n, res.err = thrift.Binary.Skip(buf[:l], t)
}

// stackFastRead is stackSkip for the shipped FastRead structs: which = 0 Base, 1 BaseResp, 2 ApplicationException.
func stackFastRead(in []byte, which int, pad int) stackSkipResult {
	var res stackSkipResult
	done := make(chan struct{})
	go func() {
		defer close(done)
		defer func() {
			if r := recover(); r != nil {
				res.panic = r
			}
		}()
		stackFastReadRun(in, which, pad, &res)
	}()
	<-done
	return res
}

//go:noinline
func stackFastReadRun(in []byte, which int, pad int, res *stackSkipResult) {
	if pad > 0 {
		var x [64]byte
		x[pad%64] = byte(pad)
		stackFastReadRun(in, which, pad-1, res)
		if x[pad%64] != byte(pad) {
			panic("stack padding damaged")
		}
		return
	}
	var buf [1024]byte
	var marker byte
	l := copy(buf[:], in)
	d := int64(uintptr(unsafe.Pointer(&buf[0]))) - int64(uintptr(unsafe.Pointer(&marker)))
	res.onStack = d > -(1<<20) && d < 1<<20
	switch which {
	case 0:
		res.n, res.err = base.NewBase().FastRead(buf[:l])
	case 1:
		res.n, res.err = base.NewBaseResp().FastRead(buf[:l])
	default:
		res.n, res.err = thrift.NewApplicationException(0, "").FastRead(buf[:l])
	}
}

var deepAfterRejection [][]byte
var deepAfterRejectionT []byte

// bufReaderAfterRejection lets the stream of nb continue with a deep well-formed value and skips it
// with the same BufferReader.
func bufReaderAfterRejection(br *thrift.BufferReader, nb *doubles.NBReader, r *rand.Rand) string {
	if deepAfterRejection == nil {
		for _, d := range []int{40, 55, 63} {
			for _, k := range []byte{ref.STRUCT, ref.LIST, ref.MAP} {
				deepAfterRejection = append(deepAfterRejection, gen.Nested(k, d, 0))
				deepAfterRejectionT = append(deepAfterRejectionT, k)
			}
		}
	}
	i := r.Intn(len(deepAfterRejection))
	v, t := deepAfterRejection[i], deepAfterRejectionT[i]
	nb.B, nb.RI = v, 0
	if err := br.Skip(thrift.TType(t)); err != nil {
		return fmt.Sprintf("the next value on the same BufferReader (well-formed, %d bytes, type %d) was rejected: %v", len(v), t, err)
	}
	if nb.RI != len(v) {
		return fmt.Sprintf("the next value on the same BufferReader (well-formed, %d bytes) was skipped as %d bytes", len(v), nb.RI)
	}
	return ""
}

// ---- multi-gigabyte inputs made of untouched zero pages ----

type vcase struct {
	name string
	t    byte
	head []byte
	per  int // bytes per declared unit
	size uint32
	wrap bool // inside a struct field
}

// virtualCases: strings and fixed-size-element containers whose size field is 0x7fffffff (largest legal), has
// the sign bit set, or makes the payload cross 2^31 / 2^32 bytes.
func virtualCases() []vcase {
	var vcs []vcase
	for _, wrap := range []bool{false, true} {
		for _, sz := range []uint32{0x7fffffff, 0x80000000, 0x80000001, 0xfffffff0, 0xffffffff} {
			vcs = append(vcs,
				vcase{"string", ref.STRING, ref.U32(nil, sz), 1, sz, wrap},
				vcase{"list<byte>", ref.LIST, ref.EncListBegin(nil, ref.BYTE, sz), 1, sz, wrap},
				vcase{"set<i16>", ref.SET, ref.EncListBegin(nil, ref.I16, sz), 2, sz, wrap},
				vcase{"map<byte,bool>", ref.MAP, ref.EncMapBegin(nil, ref.BYTE, ref.BOOL, sz), 2, sz, wrap})
		}
		// well-formed containers whose payload (count x element size) crosses 2^31 and 2^32 bytes
		vcs = append(vcs,
			vcase{"list<i32> 2GiB", ref.LIST, ref.EncListBegin(nil, ref.I32, 1<<29), 4, 1 << 29, wrap},
			vcase{"list<i64> 4GiB+", ref.LIST, ref.EncListBegin(nil, ref.I64, 1<<29+3), 8, 1<<29 + 3, wrap},
			vcase{"set<double> 2GiB+", ref.SET, ref.EncListBegin(nil, ref.DOUBLE, 1<<28+1), 8, 1<<28 + 1, wrap},
			vcase{"map<i64,i64> 4GiB+", ref.MAP, ref.EncMapBegin(nil, ref.I64, ref.I64, 1<<28+1), 16, 1<<28 + 1, wrap},
			vcase{"map<i32,i16> 3GiB", ref.MAP, ref.EncMapBegin(nil, ref.I32, ref.I16, 1<<29), 6, 1 << 29, wrap})
	}
	return vcs
}

// runVirtualCase gives one such input to the skippers that do not have to buffer it and judges acceptance and
// extent (contents are never touched: address space, not memory).
func runVirtualCase(cs *drv.Case, vc vcase) {
	head := vc.head
	t := vc.t
	if vc.wrap {
		head = append(ref.EncFieldBegin(nil, vc.t, 3), head...)
		t = ref.STRUCT
	}
	total := len(head) + int(vc.size)*vc.per
	if vc.wrap {
		total++ // STOP: the last zero byte
	}
	mem, free := san.Virtual(total + 16)
	defer free()
	copy(mem, head)
	b := mem[:total]
	negative := vc.size >= 0x80000000
	cs.Desc = M{"shape": vc.name, "size_field": vc.size, "in_struct": vc.wrap, "input_bytes": total, "head_hex": hexOf(head)}
	tt := thrift.TType(t)
	type run struct {
		name string
		f    func() skipOut
	}
	runs := []run{
		{"Binary.Skip", func() skipOut { n, err := thrift.Binary.Skip(b, tt); return skipOut{ok: err == nil, n: n, err: err} }},
		{"BufferReader.Skip/NB", func() skipOut {
			nb := &doubles.NBReader{B: b}
			br := thrift.NewBufferReader(nb)
			defer br.Recycle()
			err := br.Skip(tt)
			return skipOut{ok: err == nil, n: nb.RI, err: err}
		}},
		{"SkipDecoder/NB", func() skipOut {
			nb := &doubles.NBReader{B: b}
			d := thrift.NewSkipDecoder(nb)
			defer d.Release()
			out, err := d.Next(tt)
			return skipOut{ok: err == nil, n: len(out), err: err}
		}},
		{"BytesSkipDecoder", func() skipOut {
			d := thrift.NewBytesSkipDecoder(b)
			defer d.Release()
			out, err := d.Next(tt)
			return skipOut{ok: err == nil, n: len(out), err: err}
		}},
		{"BufferReader.Skip/BytesReader", func() skipOut {
			rd := bufiox.NewBytesReader(b)
			br := thrift.NewBufferReader(rd)
			defer br.Recycle()
			err := br.Skip(tt)
			o := skipOut{ok: err == nil, n: rd.ReadLen(), err: err}
			rd.Release(nil)
			return o
		}},
		{"SkipDecoder/BytesReader", func() skipOut {
			rd := bufiox.NewBytesReader(b)
			d := thrift.NewSkipDecoder(rd)
			defer d.Release()
			out, err := d.Next(tt)
			o := skipOut{ok: err == nil, n: len(out), err: err}
			rd.Release(nil)
			return o
		}},
	}
	for _, rn := range runs {
		o := guarded(rn.f)
		det := M{"skipper": rn.name, "type": t, "shape": vc.name, "size_field": fmt.Sprintf("%#x", vc.size), "in_struct": vc.wrap,
			"input": fmt.Sprintf("%s followed by %d zero bytes", hexOf(head), total-len(head)), "observed": o.String()}
		switch {
		case o.panic != nil:
			cs.Fail("skip-panic", M{"skipper": rn.name}, det)
		case negative && o.ok:
			cs.Fail("skip-accepted-malformed", M{"skipper": rn.name, "causes": []string{"NEGATIVE"}}, det)
		case !negative && !o.ok:
			cs.Fail("skip-rejected-wellformed", M{"skipper": rn.name}, det)
		case !negative && o.n != total:
			cs.Fail("skip-wrong-extent", M{"skipper": rn.name}, det)
		}
		if negative {
			cs.C.Obs("sign-bit sizes followed by that many bytes", 1)
		} else {
			cs.C.Obs("2 GiB values accepted", 1)
		}
	}
	cs.Count(true, "virtual", vc.name, vc.size, vc.wrap)
	cs.C.ObsMax("max_virtual_input_bytes", int64(total))
}

// dirty returns n bytes of non-zero garbage: a destination for encoders, which must store every byte they
// account for (recycled and pooled buffers are not zero-filled).
func dirty(n int) []byte {
	b := make([]byte, n)
	for i := range b {
		b[i] = 0xA5 ^ byte(i*3)
		if b[i] == 0 {
			b[i] = 0x5A
		}
	}
	return b
}
