package mon

import (
	"bytes"
	"fmt"
	"math/rand"

	"github.com/cloudwego/gopkg/protocol/thrift"
	"github.com/cloudwego/gopkg/protocol/thrift/base"

	"verifharness/drv"
	"verifharness/gen"
	"verifharness/ref"
	"verifharness/san"
)

func init() { drv.Register("C11", monC11) }

// known field: id, type, encoded value
type kfield struct {
	id  int16
	t   byte
	enc []byte
}

func encStrMap(m map[string]string) []byte {
	b := ref.EncMapBegin(nil, ref.STRING, ref.STRING, uint32(len(m)))
	for k, v := range m {
		b = ref.EncString(b, k)
		b = ref.EncString(b, v)
	}
	return b
}

func genExtra(r *rand.Rand) map[string]string {
	switch r.Intn(5) {
	case 0:
		return nil
	case 1:
		return map[string]string{}
	}
	n := 1 + r.Intn(4)
	if r.Intn(10) == 0 {
		n = 10 + r.Intn(40)
	}
	m := map[string]string{}
	for i := 0; i < n; i++ {
		m[string(gen.Bytes(r, r.Intn(10)))] = string(gen.Bytes(r, r.Intn(12)))
	}
	return m
}

func genFieldStr(r *rand.Rand) string {
	if r.Intn(40) == 0 {
		return string(gen.Bytes(r, 4000+r.Intn(5000)))
	}
	return string(gen.Bytes(r, r.Intn(24)))
}

// genUnknown produces an unknown field that does not coincide with any (id, type) in known.
func genUnknown(r *rand.Rand, known []kfield, reserved []kfield) ref.Field {
	for {
		t := ref.KnownTypes[r.Intn(len(ref.KnownTypes))]
		var id int16
		switch r.Intn(4) {
		case 0: // same id as a known field, different type
			id = known[r.Intn(len(known))].id
		case 1: // id that collides with a known id modulo 256 (packed-key bugs)
			id = known[r.Intn(len(known))].id + int16(256*(1+r.Intn(100)))
		case 2:
			id = gen.I16(r)
		default:
			id = int16(r.Intn(12))
		}
		clash := false
		for _, k := range reserved {
			// (id, type) pairs the struct itself defines - also when the optional field is absent from
			// this value. A MAP under the id of the struct's own MAP field is the same Thrift type,
			// whatever its element types: not a "differently typed" field, so it is never generated.
			if k.id == id && k.t == t {
				clash = true
			}
		}
		if clash {
			continue
		}
		v := gen.Tree(r, t, gen.TreeOpts{MaxDepth: 1 + r.Intn(3), MaxElems: 4}, 0)
		return ref.Field{ID: id, V: v}
	}
}

// buildStruct encodes the known fields in a random order with unknown fields interleaved.
func buildStruct(r *rand.Rand, known []kfield, nUnknown int, permute bool, reserved ...kfield) (enc []byte, shape string) {
	reserved = append(reserved, known...)
	order := make([]int, len(known))
	for i := range order {
		order[i] = i
	}
	if permute {
		r.Shuffle(len(order), func(i, j int) { order[i], order[j] = order[j], order[i] })
	}
	// gaps: positions 0..len(known)
	gaps := make([][]ref.Field, len(known)+1)
	for i := 0; i < nUnknown; i++ {
		g := r.Intn(len(gaps))
		gaps[g] = append(gaps[g], genUnknown(r, known, reserved))
	}
	emit := func(fs []ref.Field) {
		for _, f := range fs {
			enc = ref.EncFieldBegin(enc, f.V.T, f.ID)
			enc = f.V.Encode(enc)
			shape += fmt.Sprintf("u(%d:%d) ", f.ID, f.V.T)
		}
	}
	for pos, k := range order {
		emit(gaps[pos])
		enc = ref.EncFieldBegin(enc, known[k].t, known[k].id)
		enc = append(enc, known[k].enc...)
		shape += fmt.Sprintf("k%d ", known[k].id)
	}
	emit(gaps[len(known)])
	enc = append(enc, 0)
	return
}

func strMapEq(a, b map[string]string) bool {
	if (a == nil) != (b == nil) || len(a) != len(b) {
		return false
	}
	for k, v := range a {
		if w, ok := b[k]; !ok || w != v {
			return false
		}
	}
	return true
}

func monC11(c *drv.Ctx) {
	// ---- Base ----
	c.Stage("base", c.Pick(150000, 1500000), false, func(cs *drv.Case) {
		r := cs.R
		orig := &base.Base{LogID: genFieldStr(r), Caller: genFieldStr(r), Addr: genFieldStr(r), Extra: genExtra(r)}
		fail := func(check, msg string, a ...interface{}) {
			cs.Fail(check, M{"struct": "Base"}, M{"value": fmt.Sprintf("%.300q", fmt.Sprint(orig)), "message": fmt.Sprintf(msg, a...)})
		}
		// (a) BLength == bytes written == bytes read back; value reproduced
		bl := orig.BLength()
		cn := san.NewCanary(bl, bl, func(int) byte { return 0xCC })
		n1 := orig.FastWrite(cn.Buf())
		buf2 := dirty(bl)
		n2 := orig.FastWriteNocopy(buf2, nil)
		if n1 != bl || n2 != bl {
			fail("blength-vs-written", "BLength %d, FastWrite %d, FastWriteNocopy(nil) %d", bl, n1, n2)
			return
		}
		wire := append([]byte(nil), cn.Buf()...)
		pr := ref.Parse(wire, ref.STRUCT)
		if !pr.OK || pr.N != bl {
			fail("written-struct-malformed", "independent parser: ok=%v n=%d for %d written bytes", pr.OK, pr.N, bl)
			return
		}
		if len(orig.Extra) <= 1 {
			known := []kfield{{1, ref.STRING, ref.EncString(nil, orig.LogID)}, {2, ref.STRING, ref.EncString(nil, orig.Caller)}, {3, ref.STRING, ref.EncString(nil, orig.Addr)}}
			if orig.Extra != nil {
				known = append(known, kfield{6, ref.MAP, encStrMap(orig.Extra)})
			}
			want, _ := buildStruct(r, known, 0, false)
			if !bytes.Equal(wire, want) || !bytes.Equal(buf2, want) {
				fail("written-bytes", "FastWrite bytes differ from the reference encoding (first diff at %d)", firstDiff(wire, want))
				return
			}
		}
		got := base.NewBase()
		nr, err := got.FastRead(place(append(wire, 0xff, 0x0c, 0x01), 0))
		if err != nil || nr != bl {
			fail("fastread-of-own-encoding", "FastRead = (%d, %v), want (%d, nil)", nr, err, bl)
			return
		}
		if got.LogID != orig.LogID || got.Caller != orig.Caller || got.Addr != orig.Addr || !strMapEq(got.Extra, orig.Extra) {
			fail("roundtrip-value", "decoded %.200q", fmt.Sprint(got))
			return
		}
		g2 := base.NewBase()
		if err := thrift.FastUnmarshal(thrift.FastMarshal(orig), g2); err != nil || g2.LogID != orig.LogID || !strMapEq(g2.Extra, orig.Extra) {
			fail("fastmarshal-roundtrip", "err=%v", err)
			return
		}
		// (b) permuted known fields + unknown fields anywhere
		known := []kfield{{1, ref.STRING, ref.EncString(nil, orig.LogID)}, {2, ref.STRING, ref.EncString(nil, orig.Caller)}, {3, ref.STRING, ref.EncString(nil, orig.Addr)}}
		if orig.Extra != nil {
			known = append(known, kfield{6, ref.MAP, encStrMap(orig.Extra)})
		}
		nu := r.Intn(7)
		enc, shape := buildStruct(r, known, nu, true, kfield{id: 6, t: ref.MAP})
		tail := gen.Bytes(r, r.Intn(5))
		in := place(append(append([]byte(nil), enc...), tail...), 0)
		got = base.NewBase()
		nr, err = got.FastRead(in)
		cs.Desc = M{"struct": "Base", "field_order": shape, "wire_hex": hexOf(enc)}
		if err != nil || nr != len(enc) {
			fail("fastread-permuted-unknown", "FastRead = (%d, %v), want (%d, nil); order: %s", nr, err, len(enc), shape)
			return
		}
		if got.LogID != orig.LogID || got.Caller != orig.Caller || got.Addr != orig.Addr || !strMapEq(got.Extra, orig.Extra) {
			fail("known-field-disturbed", "order: %s; decoded %.200q", shape, fmt.Sprint(got))
			return
		}
		// a receiver that is not fresh (recycled by its owner, fields still set): reading replaces what the
		// message carries - in particular the map is the message's map, not a merge with the old one
		if orig.Extra != nil {
			old := &base.Base{LogID: "stale", Caller: "stale", Addr: "stale", Extra: map[string]string{"__stale_key": "stale", "": "stale-empty"}}
			if _, err := old.FastRead(in); err != nil || old.LogID != orig.LogID || old.Caller != orig.Caller || old.Addr != orig.Addr || !strMapEq(old.Extra, orig.Extra) {
				fail("reused-receiver", "FastRead into a receiver that already held values gives %.200q (err=%v)", fmt.Sprint(old), err)
				return
			}
			cs.C.Obs("reads into a used receiver", 1)
		}
		// the decoded struct belongs to the caller: what it does with it (here: adds to and clears the map)
		// must not show up in the next struct decoded from the same bytes
		if got.Extra != nil {
			got.Extra["__added_by_the_owner"] = "x"
			for k := range orig.Extra {
				delete(got.Extra, k)
				break
			}
			g3 := base.NewBase()
			if _, err := g3.FastRead(in); err != nil || !strMapEq(g3.Extra, orig.Extra) {
				fail("decoded-map-shared", "a Base decoded after the owner of an earlier one changed its Extra map reads %.200q (err=%v)", fmt.Sprint(g3.Extra), err)
				return
			}
			cs.C.Obs("decoded maps modified by their owner", 1)
		}
		cs.Count(nu > 0, "base", shape, enc)
		cs.C.Obs("structs checked", 1)
		if nu > 0 {
			cs.C.Obs("structs with unknown fields", 1)
		}
		if cs.WantSample() && nu > 0 && len(enc) < 200 && cs.Idx%211 == 1 {
			cs.Sample(cs.Desc)
		}
	})

	// ---- BaseResp ----
	c.Stage("baseresp", c.Pick(150000, 1500000), false, func(cs *drv.Case) {
		r := cs.R
		orig := &base.BaseResp{StatusMessage: genFieldStr(r), StatusCode: gen.I32(r), Extra: genExtra(r)}
		fail := func(check, msg string, a ...interface{}) {
			cs.Fail(check, M{"struct": "BaseResp"}, M{"value": fmt.Sprintf("%.300q", fmt.Sprint(orig)), "message": fmt.Sprintf(msg, a...)})
		}
		bl := orig.BLength()
		wire := dirty(bl)
		n1 := orig.FastWrite(wire)
		buf2 := dirty(bl)
		n2 := orig.FastWriteNocopy(buf2, nil)
		if n1 != bl || n2 != bl {
			fail("blength-vs-written", "BLength %d, FastWrite %d, FastWriteNocopy(nil) %d", bl, n1, n2)
			return
		}
		known := []kfield{{1, ref.STRING, ref.EncString(nil, orig.StatusMessage)}, {2, ref.I32, ref.EncI32(nil, orig.StatusCode)}}
		if orig.Extra != nil {
			known = append(known, kfield{3, ref.MAP, encStrMap(orig.Extra)})
		}
		if len(orig.Extra) <= 1 {
			want, _ := buildStruct(r, known, 0, false)
			if !bytes.Equal(wire, want) || !bytes.Equal(buf2, want) {
				fail("written-bytes", "FastWrite bytes differ from the reference encoding (first diff at %d)", firstDiff(wire, want))
				return
			}
		}
		got := base.NewBaseResp()
		rdIn := wire
		if r.Intn(2) == 0 {
			// the struct is a field of an enclosing struct: more fields follow it
			rdIn = append(append([]byte(nil), wire...), gen.Bytes(r, 2+r.Intn(6))...)
		}
		nr, err := got.FastRead(place(rdIn, 0))
		if err != nil || nr != bl || got.StatusMessage != orig.StatusMessage || got.StatusCode != orig.StatusCode || !strMapEq(got.Extra, orig.Extra) {
			fail("fastread-of-own-encoding", "FastRead = (%d, %v), want (%d, nil); decoded %.200q", nr, err, bl, fmt.Sprint(got))
			return
		}
		nu := r.Intn(7)
		enc, shape := buildStruct(r, known, nu, true, kfield{id: 3, t: ref.MAP})
		in := place(append(append([]byte(nil), enc...), gen.Bytes(r, r.Intn(5))...), 0)
		got = base.NewBaseResp()
		nr, err = got.FastRead(in)
		cs.Desc = M{"struct": "BaseResp", "field_order": shape, "wire_hex": hexOf(enc)}
		if err != nil || nr != len(enc) {
			fail("fastread-permuted-unknown", "FastRead = (%d, %v), want (%d, nil); order: %s", nr, err, len(enc), shape)
			return
		}
		if got.StatusMessage != orig.StatusMessage || got.StatusCode != orig.StatusCode || !strMapEq(got.Extra, orig.Extra) {
			fail("known-field-disturbed", "order: %s; decoded %.200q", shape, fmt.Sprint(got))
			return
		}
		if orig.Extra != nil {
			old := &base.BaseResp{StatusMessage: "stale", StatusCode: 77, Extra: map[string]string{"__stale_key": "stale"}}
			if _, err := old.FastRead(in); err != nil || old.StatusMessage != orig.StatusMessage || old.StatusCode != orig.StatusCode || !strMapEq(old.Extra, orig.Extra) {
				fail("reused-receiver", "FastRead into a receiver that already held values gives %.200q (err=%v)", fmt.Sprint(old), err)
				return
			}
			cs.C.Obs("reads into a used receiver", 1)
		}
		if got.Extra != nil {
			got.Extra["__added_by_the_owner"] = "x"
			g3 := base.NewBaseResp()
			if _, err := g3.FastRead(in); err != nil || !strMapEq(g3.Extra, orig.Extra) {
				fail("decoded-map-shared", "a BaseResp decoded after the owner of an earlier one changed its Extra map reads %.200q (err=%v)", fmt.Sprint(g3.Extra), err)
				return
			}
			cs.C.Obs("decoded maps modified by their owner", 1)
		}
		cs.Count(nu > 0, "baseresp", shape, enc)
		cs.C.Obs("structs checked", 1)
	})

	// ---- ApplicationException ----
	c.Stage("exception", c.Pick(150000, 1500000), false, func(cs *drv.Case) {
		r := cs.R
		msg := genFieldStr(r)
		tid := gen.I32(r)
		if r.Intn(8) == 0 {
			// a message that happens to equal the stock text of some type id (possibly its own)
			tid = int32(r.Intn(12))
			msg = thrift.NewApplicationException(int32(r.Intn(12)), "").Error()
			if r.Intn(2) == 0 {
				msg = thrift.NewApplicationException(tid, "").Error()
			}
		}
		orig := thrift.NewApplicationException(tid, msg)
		fail := func(check, m string, a ...interface{}) {
			cs.Fail(check, M{"struct": "ApplicationException"}, M{"type_id": tid, "msg_len": len(msg), "message": fmt.Sprintf(m, a...)})
		}
		bl := orig.BLength()
		wire := dirty(bl)
		n1 := orig.FastWrite(wire)
		buf2 := dirty(bl)
		n2 := orig.FastWriteNocopy(buf2, nil)
		known := []kfield{{1, ref.STRING, ref.EncString(nil, msg)}, {2, ref.I32, ref.EncI32(nil, tid)}}
		want, _ := buildStruct(r, known, 0, false)
		if n1 != bl || n2 != bl || !bytes.Equal(wire, want) || !bytes.Equal(buf2, want) {
			fail("blength-vs-written", "BLength %d, FastWrite %d, FastWriteNocopy %d, bytes equal reference: %v", bl, n1, n2, bytes.Equal(wire, want))
			return
		}
		got := thrift.NewApplicationException(0, "")
		rdIn := wire
		if r.Intn(2) == 0 {
			rdIn = append(append([]byte(nil), wire...), gen.Bytes(r, 2+r.Intn(6))...)
		}
		nr, err := got.FastRead(place(rdIn, 0))
		if err != nil || nr != bl || got.Msg() != msg || got.TypeID() != tid {
			fail("fastread-of-own-encoding", "FastRead = (%d, %v); decoded (%d, %.60q)", nr, err, got.TypeID(), got.Msg())
			return
		}
		nu := r.Intn(7)
		enc, shape := buildStruct(r, known, nu, true)
		in := place(append(append([]byte(nil), enc...), gen.Bytes(r, r.Intn(5))...), 0)
		got = thrift.NewApplicationException(0, "")
		nr, err = got.FastRead(in)
		cs.Desc = M{"struct": "ApplicationException", "field_order": shape, "wire_hex": hexOf(enc)}
		if err != nil || nr != len(enc) {
			fail("fastread-permuted-unknown", "FastRead = (%d, %v), want (%d, nil); order: %s", nr, err, len(enc), shape)
			return
		}
		if got.Msg() != msg || got.TypeID() != tid {
			fail("known-field-disturbed", "order: %s; decoded (%d, %.60q)", shape, got.TypeID(), got.Msg())
			return
		}
		cs.Count(nu > 0, "exc", shape, enc)
		cs.C.Obs("structs checked", 1)
	})

	// ---- nil receivers, absent fields ----
	c.Stage("nil-and-absent", 8, true, func(cs *drv.Case) {
		switch cs.Idx {
		case 6, 7: // more than 2^16 map entries
			n := 65536 + 5 + int(cs.Idx)
			extra := make(map[string]string, n)
			for i := 0; i < n; i++ {
				extra[fmt.Sprintf("k%06d", i)] = fmt.Sprintf("%d", i%10)
			}
			var codec thrift.FastCodec
			var dec func([]byte) (int, error, map[string]string)
			if cs.Idx == 6 {
				codec = &base.Base{LogID: "l", Extra: extra}
				dec = func(b []byte) (int, error, map[string]string) {
					q := base.NewBase()
					n, e := q.FastRead(b)
					return n, e, q.Extra
				}
			} else {
				codec = &base.BaseResp{StatusMessage: "m", StatusCode: 3, Extra: extra}
				dec = func(b []byte) (int, error, map[string]string) {
					q := base.NewBaseResp()
					n, e := q.FastRead(b)
					return n, e, q.Extra
				}
			}
			bl := codec.BLength()
			wire := dirty(bl)
			wn := codec.FastWriteNocopy(wire, nil)
			rn, err, got := dec(wire)
			if wn != bl || err != nil || rn != bl || !strMapEq(got, extra) {
				cs.Fail("big-map-roundtrip", M{"struct": cs.Idx == 6}, M{"entries": n, "blength": bl, "written": wn, "read": rn, "err": errString(err), "decoded_entries": len(got)})
			}
			cs.C.Obs("maps with more than 65536 entries", 1)
		case 0:
			var p *base.Base
			b := []byte{0xAA, 0xBB}
			if p.BLength() != 1 || p.FastWrite(b) != 1 || b[0] != 0 || b[1] != 0xBB {
				cs.Fail("nil-receiver", M{"struct": "Base"}, M{"blength": p.BLength(), "bytes": hexOf(b)})
			}
		case 1:
			var p *base.BaseResp
			b := []byte{0xAA, 0xBB}
			if p.BLength() != 1 || p.FastWriteNocopy(b, nil) != 1 || b[0] != 0 || b[1] != 0xBB {
				cs.Fail("nil-receiver", M{"struct": "BaseResp"}, M{"blength": p.BLength(), "bytes": hexOf(b)})
			}
		case 2: // only STOP: everything absent
			p := base.NewBase()
			n, err := p.FastRead([]byte{0})
			if err != nil || n != 1 || p.Extra != nil || p.LogID != "" {
				cs.Fail("absent-fields", M{"struct": "Base"}, M{"n": n, "err": errString(err)})
			}
		case 3:
			p := base.NewBaseResp()
			n, err := p.FastRead([]byte{0})
			if err != nil || n != 1 || p.Extra != nil || p.StatusCode != 0 {
				cs.Fail("absent-fields", M{"struct": "BaseResp"}, M{"n": n, "err": errString(err)})
			}
		case 4: // empty map must stay empty and non-nil, and be counted by BLength
			p := &base.Base{Extra: map[string]string{}}
			bl := p.BLength()
			b := make([]byte, bl+8)
			n := p.FastWrite(b)
			q := base.NewBase()
			m, err := q.FastRead(b[:n])
			if n != bl || err != nil || m != n || q.Extra == nil || len(q.Extra) != 0 {
				cs.Fail("empty-map", M{"struct": "Base"}, M{"blength": bl, "written": n, "read": m, "err": errString(err), "extra_nil": q.Extra == nil})
			}
		case 5:
			p := &base.BaseResp{Extra: map[string]string{}}
			bl := p.BLength()
			b := make([]byte, bl+8)
			n := p.FastWrite(b)
			q := base.NewBaseResp()
			m, err := q.FastRead(b[:n])
			if n != bl || err != nil || m != n || q.Extra == nil || len(q.Extra) != 0 {
				cs.Fail("empty-map", M{"struct": "BaseResp"}, M{"blength": bl, "written": n, "read": m, "err": errString(err), "extra_nil": q.Extra == nil})
			}
		}
		cs.Count(true, "nil", cs.Idx)
	})
	// (7) the same structs through FastWriteNocopy with a direct writer attached: the advertised length is still
	// what is produced (linear part + directly written pieces), and the spliced stream reads back as the value
	c.Stage("nocopy-writer-structs", c.Pick(8000, 100000), false, c15StructCase)
	c.Stage("nocopy-writer-exception", c.Pick(1500, 20000), false, c15ExceptionCase)
}
