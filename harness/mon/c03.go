package mon

import (
	"bytes"
	"context"
	"fmt"
	"math/rand"
	"runtime"
	"runtime/debug"
	"strings"

	"github.com/cloudwego/gopkg/bufiox"
	"github.com/cloudwego/gopkg/protocol/thrift"
	"github.com/cloudwego/gopkg/protocol/thrift/base"
	"github.com/cloudwego/gopkg/protocol/thrift/unknownfields"
	"github.com/cloudwego/gopkg/protocol/ttheader"

	"verifharness/drv"
	"verifharness/gen"
	"verifharness/ref"
)

func init() { drv.Register("C03", monC03) }

// entry is one buffer-based decoding entry point. It returns the consumed length it
// reports (or -1 when the API reports none) and whether it reported success.
type entry struct {
	name   string
	allocs bool // allocates what the input declares
	f      func(b []byte) (n int, ok bool)
}

var c03Entries = []entry{
	{"Binary.ReadBool", false, func(b []byte) (int, bool) { _, l, err := thrift.Binary.ReadBool(b); return l, err == nil }},
	{"Binary.ReadByte", false, func(b []byte) (int, bool) { _, l, err := thrift.Binary.ReadByte(b); return l, err == nil }},
	{"Binary.ReadI16", false, func(b []byte) (int, bool) { _, l, err := thrift.Binary.ReadI16(b); return l, err == nil }},
	{"Binary.ReadI32", false, func(b []byte) (int, bool) { _, l, err := thrift.Binary.ReadI32(b); return l, err == nil }},
	{"Binary.ReadI64", false, func(b []byte) (int, bool) { _, l, err := thrift.Binary.ReadI64(b); return l, err == nil }},
	{"Binary.ReadDouble", false, func(b []byte) (int, bool) { _, l, err := thrift.Binary.ReadDouble(b); return l, err == nil }},
	{"Binary.ReadString", false, func(b []byte) (int, bool) { _, l, err := thrift.Binary.ReadString(b); return l, err == nil }},
	{"Binary.ReadBinary", false, func(b []byte) (int, bool) { _, l, err := thrift.Binary.ReadBinary(b); return l, err == nil }},
	{"Binary.ReadFieldBegin", false, func(b []byte) (int, bool) { _, _, l, err := thrift.Binary.ReadFieldBegin(b); return l, err == nil }},
	{"Binary.ReadMapBegin", false, func(b []byte) (int, bool) { _, _, _, l, err := thrift.Binary.ReadMapBegin(b); return l, err == nil }},
	{"Binary.ReadListBegin", false, func(b []byte) (int, bool) { _, _, l, err := thrift.Binary.ReadListBegin(b); return l, err == nil }},
	{"Binary.ReadSetBegin", false, func(b []byte) (int, bool) { _, _, l, err := thrift.Binary.ReadSetBegin(b); return l, err == nil }},
	{"Binary.ReadMessageBegin", false, func(b []byte) (int, bool) {
		_, _, _, l, err := thrift.Binary.ReadMessageBegin(b)
		return l, err == nil
	}},
	{"ApplicationException.FastRead", false, func(b []byte) (int, bool) {
		e := thrift.NewApplicationException(0, "")
		n, err := e.FastRead(b)
		return n, err == nil
	}},
	{"Base.FastRead", true, func(b []byte) (int, bool) { p := base.NewBase(); n, err := p.FastRead(b); return n, err == nil }},
	{"BaseResp.FastRead", true, func(b []byte) (int, bool) { p := base.NewBaseResp(); n, err := p.FastRead(b); return n, err == nil }},
	{"FastUnmarshal(Base)", true, func(b []byte) (int, bool) { err := thrift.FastUnmarshal(b, base.NewBase()); return -1, err == nil }},
	{"FastUnmarshal(ApplicationException)", false, func(b []byte) (int, bool) {
		err := thrift.FastUnmarshal(b, thrift.NewApplicationException(0, ""))
		return -1, err == nil
	}},
	{"UnmarshalFastMsg(BaseResp)", true, func(b []byte) (int, bool) {
		_, _, err := thrift.UnmarshalFastMsg(b, base.NewBaseResp())
		if _, isEx := err.(*thrift.ApplicationException); isEx {
			return -1, true
		}
		return -1, err == nil
	}},
	{"ConvertUnknownFields", true, func(b []byte) (int, bool) { _, err := unknownfields.ConvertUnknownFields(b); return -1, err == nil }},
	{"GetUnknownFields(*struct)", true, func(b []byte) (int, bool) {
		v := &struct {
			A              int
			_unknownFields []byte
		}{A: 1, _unknownFields: b}
		_, err := unknownfields.GetUnknownFields(v)
		return -1, err == nil
	}},
	{"GetUnknownFields(struct)", true, func(b []byte) (int, bool) {
		v := struct {
			_unknownFields []byte
			Z              string
		}{_unknownFields: b}
		_, err := unknownfields.GetUnknownFields(v)
		return -1, err == nil
	}},
	{"ttheader.DecodeFromBytes", false, func(b []byte) (int, bool) {
		p, err := ttheader.DecodeFromBytes(context.Background(), b)
		if err != nil {
			return -1, false
		}
		return p.HeaderLen, true
	}},
	{"ttheader.Decode(BytesReader)", false, func(b []byte) (int, bool) {
		r := bufiox.NewBytesReader(b)
		_, err := ttheader.Decode(context.Background(), r)
		n := r.ReadLen()
		r.Release(nil)
		if err != nil {
			// consumption is bounded even on failure
			return n, true
		}
		return n, true
	}},
	{"ttheader.Decode(after a preface)", false, func(b []byte) (int, bool) {
		// the frame is the second thing on a reader that has not been released: lengths are about the frame
		all := append([]byte{1, 2, 3}, b...)
		r := bufiox.NewBytesReader(all)
		r.Next(3)
		p, err := ttheader.Decode(context.Background(), r)
		r.Release(nil)
		if err != nil {
			return -1, false
		}
		return p.HeaderLen, true
	}},
	{"BytesSkipDecoder.Next(STRUCT)", false, func(b []byte) (int, bool) {
		d := thrift.NewBytesSkipDecoder(b)
		defer d.Release()
		out, err := d.Next(thrift.STRUCT)
		return len(out), err == nil
	}},
}

// c03Run runs every entry point (plus Binary.Skip / BytesSkipDecoder for the given types) on b at both arena placements.
func c03Run(cs *drv.Case, b []byte, skipTypes []byte, allocCap uint32) {
	// Entry points that allocate what the input declares are only given inputs whose declared sizes
	// are small or backed by the input itself. Struct-shaped entry points meet size fields in the
	// order of the grammar oracle (MaxAsk: every size read as unsigned, x8 / x16 per element);
	// the message entry point is judged by the conservative scan of every 4-byte window.
	win := ref.MaxDeclaredWindow(b)
	prS := ref.Parse(b, ref.STRUCT)
	structOK := prS.MaxAsk <= 16*uint64(allocCap) || prS.MaxAsk <= 16*uint64(len(b))
	calls := int64(0)
	nPlace := 2
	if cs.Idx%3 == 0 && len(b) > 0 {
		nPlace = 3 // also as bytes nobody may write to
	}
	for where := 0; where < nPlace; where++ {
		var in []byte
		if where < 2 {
			in = place(b, where)
		} else {
			var ok bool
			if in, ok = placeReadOnly(b); !ok {
				break
			}
			cs.C.Obs("decoder calls on write-protected inputs", int64(len(c03Entries)))
		}
		pl := []string{"arena-end", "arena-start", "write-protected"}[where]
		for i := range c03Entries {
			e := &c03Entries[i]
			// entry points that allocate what the input declares: capped, unless the declared count is
			// backed by the input itself (then the allocation is proportional to the input size)
			// The generated readers of Base / BaseResp read their own map field without looking at its key / value
			// type bytes, so they may reach a count the grammar oracle never gets to (it stops at the unknown key
			// type): for them the cap is the conservative scan of every 4-byte window, as for the message entry.
			windowCapped := strings.Contains(e.name, "Base")
			if e.allocs {
				skip := e.name != "UnmarshalFastMsg(BaseResp)" && !structOK
				if windowCapped && win > allocCap && int(win) > len(b) {
					skip = true
				}
				if skip {
					cs.C.Obs("alloc-capped calls", 1)
					continue
				}
			}
			c03Call(cs, e.name, b, in, pl, func() (int, bool) { return e.f(in) })
			calls++
		}
		for _, t := range skipTypes {
			t := t
			c03Call(cs, "Binary.Skip", b, in, pl, func() (int, bool) {
				n, err := thrift.Binary.Skip(in, thrift.TType(t))
				return n, err == nil
			}, M{"type": t})
			c03Call(cs, "BytesSkipDecoder.Next", b, in, pl, func() (int, bool) {
				d := thrift.NewBytesSkipDecoder(in)
				defer d.Release()
				out, err := d.Next(thrift.TType(t))
				return len(out), err == nil
			}, M{"type": t})
			calls += 2
		}
	}
	cs.C.Obs("guarded decoder calls", calls)
}

func c03Call(cs *drv.Case, name string, orig, in []byte, placement string, f func() (int, bool), extra ...M) {
	var n int
	var ok bool
	var pv interface{}
	func() {
		defer func() {
			if r := recover(); r != nil {
				pv = r
			}
		}()
		n, ok = f()
	}()
	detail := func() M {
		d := M{"entry": name, "input_hex": hexOf(orig), "input_len": len(orig), "placement": placement}
		for _, e := range extra {
			for k, v := range e {
				d[k] = v
			}
		}
		return d
	}
	if pv != nil {
		kind := "decoder-panic"
		if isWriteToInputPanic(pv) {
			kind = "decoder-wrote-into-its-input"
		} else if isFaultPanic(pv) {
			kind = "decoder-read-outside-input"
		}
		d := detail()
		d["panic"] = fmt.Sprint(pv)
		cs.Fail(kind, M{"entry": name}, d)
		return
	}
	if ok && n > len(orig) {
		d := detail()
		d["reported"] = n
		cs.Fail("decoder-over-report", M{"entry": name}, d)
	}
	if ok {
		cs.C.Obs("decoder successes", 1)
	} else {
		cs.C.Obs("decoder errors", 1)
	}
}

// seedEncoding produces a valid encoding of one of the shapes the entry points understand.
func seedEncoding(cs *drv.Case) ([]byte, string) {
	r := cs.R
	switch r.Intn(7) {
	case 0: // arbitrary value (for Skip)
		t := ref.KnownTypes[r.Intn(len(ref.KnownTypes))]
		v := gen.Tree(r, t, gen.TreeOpts{MaxDepth: 1 + r.Intn(4), MaxElems: 4}, 0)
		return v.Encode(nil), fmt.Sprintf("value(type %d)", t)
	case 1: // Base-shaped struct with unknown fields
		return encBaseLike(r, true), "base-struct"
	case 2: // BaseResp-shaped
		return encBaseLike(r, false), "baseresp-struct"
	case 3: // application exception struct
		var b []byte
		b = ref.EncFieldBegin(b, ref.STRING, 1)
		b = ref.EncString(b, string(gen.Bytes(r, r.Intn(20))))
		b = ref.EncFieldBegin(b, ref.I32, 2)
		b = ref.EncI32(b, gen.I32(r))
		return append(b, 0), "exception-struct"
	case 4: // message envelope + struct
		mt := int32(1 + r.Intn(4))
		b := ref.EncMessageBegin(nil, string(gen.Bytes(r, 1+r.Intn(12))), mt, gen.I32(r))
		if mt == 3 {
			b = ref.EncFieldBegin(b, ref.STRING, 1)
			b = ref.EncString(b, "boom")
			b = ref.EncFieldBegin(b, ref.I32, 2)
			b = ref.EncI32(b, 6)
			return append(b, 0), "exception-message"
		}
		return append(b, encBaseLike(r, false)...), "message"
	case 5: // unknown-field sequence (struct body without STOP)
		v := gen.Tree(r, ref.STRUCT, gen.TreeOpts{MaxDepth: 1 + r.Intn(3), MaxElems: 4, Canonical: true, AnyFieldIDs: true}, 0)
		e := v.Encode(nil)
		return e[:len(e)-1], "unknown-fields"
	}
	return encTTHFrame(r), "ttheader-frame"
}

func encBaseLike(r *rand.Rand, isBase bool) []byte {
	var b []byte
	str := func(n int) string {
		s := make([]byte, n)
		for i := range s {
			s[i] = byte('a' + r.Intn(26))
		}
		return string(s)
	}
	extra := func(id int16) {
		n := r.Intn(4)
		b = ref.EncFieldBegin(b, ref.MAP, id)
		b = ref.EncMapBegin(b, ref.STRING, ref.STRING, uint32(n))
		for i := 0; i < n; i++ {
			b = ref.EncString(b, str(r.Intn(6)))
			b = ref.EncString(b, str(r.Intn(6)))
		}
	}
	unknown := func() {
		if r.Intn(3) == 0 {
			b = ref.EncFieldBegin(b, ref.LIST, int16(20+r.Intn(5)))
			b = ref.EncListBegin(b, ref.I16, 2)
			b = append(b, 0, 1, 0, 2)
		}
	}
	if isBase {
		unknown()
		b = ref.EncFieldBegin(b, ref.STRING, 1)
		b = ref.EncString(b, str(r.Intn(8)))
		b = ref.EncFieldBegin(b, ref.STRING, 2)
		b = ref.EncString(b, str(r.Intn(8)))
		unknown()
		b = ref.EncFieldBegin(b, ref.STRING, 3)
		b = ref.EncString(b, str(r.Intn(8)))
		if r.Intn(2) == 0 {
			extra(6)
		}
	} else {
		b = ref.EncFieldBegin(b, ref.STRING, 1)
		b = ref.EncString(b, str(r.Intn(8)))
		unknown()
		b = ref.EncFieldBegin(b, ref.I32, 2)
		b = ref.EncI32(b, int32(r.Intn(1000)))
		if r.Intn(2) == 0 {
			extra(3)
		}
	}
	unknown()
	return append(b, 0)
}

func encTTHFrame(r *rand.Rand) []byte {
	var info []byte
	info = append(info, []byte{0, 3, 4, 0x10, 0x11, 0}[r.Intn(6)], 0)
	str := func(n int) string {
		s := make([]byte, n)
		for i := range s {
			s[i] = byte('a' + r.Intn(26))
		}
		return string(s)
	}
	if r.Intn(3) > 0 {
		info = append(info, 0x11)
		info = ref.TTHStr2(info, str(r.Intn(5)))
	}
	if r.Intn(3) > 0 {
		n := r.Intn(3)
		info = append(info, 0x01)
		info = ref.U16(info, uint16(n))
		for i := 0; i < n; i++ {
			info = ref.TTHStr2(info, str(r.Intn(5)))
			info = ref.TTHStr2(info, str(r.Intn(5)))
		}
	}
	if r.Intn(3) > 0 {
		n := r.Intn(3)
		info = append(info, 0x10)
		info = ref.U16(info, uint16(n))
		for i := 0; i < n; i++ {
			info = ref.U16(info, uint16(r.Intn(30)))
			info = ref.TTHStr2(info, str(r.Intn(5)))
		}
	}
	for len(info)%4 != 0 {
		info = append(info, 0)
	}
	payload := r.Intn(8)
	f := ref.TTHEncode(uint32(14+len(info)+payload-4), 0x1000, uint16(r.Intn(65536)), int32(r.Intn(1<<30)), uint16(len(info)/4), info)
	for i := 0; i < payload; i++ {
		f = append(f, byte(0xee))
	}
	return f
}

func monC03(c *drv.Ctx) {
	if fuzzReplayStage(c) {
		return
	}
	defer c03DeepRecursion(c) // last: it lowers the stack limit of the process
	allocCap := uint32(c.Pick(1<<12, 1<<16))
	someTypes := func(cs *drv.Case) []byte {
		return []byte{ref.STRUCT, ref.MAP, ref.LIST, ref.STRING, byte(cs.R.Intn(256)), 0x80 | byte(cs.R.Intn(128))}
	}

	// (1) every string over the full alphabet up to length 2
	c.Stage("full-alphabet<=2", 1+256+65536, true, func(cs *drv.Case) {
		var b []byte
		switch {
		case cs.Idx == 0:
		case cs.Idx <= 256:
			b = []byte{byte(cs.Idx - 1)}
		default:
			v := cs.Idx - 257
			b = []byte{byte(v >> 8), byte(v)}
		}
		cs.Desc = M{"input_hex": hexOf(b)}
		c03Run(cs, b, []byte{ref.STRUCT, ref.MAP, ref.LIST, ref.STRING, byte(cs.Idx)}, allocCap)
		cs.Count(false)
	})

	// (2) all 256 requested type bytes x representative inputs
	c.Stage("all-type-bytes", 256, true, func(cs *drv.Case) {
		t := byte(cs.Idx)
		for k := 0; k < 24; k++ {
			b, kind := seedEncoding(cs)
			if k%2 == 1 {
				b, _ = gen.Mutate(cs.R, b, nil)
			}
			cs.Desc = M{"requested_type": t, "seed": kind, "input_hex": hexOf(b)}
			c03Run(cs, b, []byte{t}, allocCap)
		}
		cs.Count(true, "typebyte", t)
	})

	// (3) grammar alphabet, bounded-exhaustive
	maxLen := int(c.Pick(4, 6))
	if c.Slow() {
		maxLen = 4
	}
	for n := 3; n <= maxLen; n++ {
		n := n
		total := gen.Pow(int64(len(gen.GrammarAlphabet)), n)
		c.Stage(fmt.Sprintf("grammar-alphabet-len%d", n), total, true, func(cs *drv.Case) {
			b := gen.AlphabetString(gen.GrammarAlphabet, n, cs.Idx)
			cs.Desc = M{"input_hex": hexOf(b)}
			c03Run(cs, b, []byte{ref.STRUCT, ref.MAP, ref.LIST, ref.STRING, 0x80, 0xff}, allocCap)
			cs.Count(true, b)
			if cs.WantSample() && cs.Idx%4001 == 11 {
				cs.Sample(cs.Desc)
			}
		})
	}

	// (4) mutated valid encodings of every shape; every 6th case sweeps all truncation points
	c.Stage("mutated-encodings", c.Pick(200000, 4000000), false, func(cs *drv.Case) {
		enc, kind := seedEncoding(cs)
		other, _ := seedEncoding(cs)
		m, mut := gen.Mutate(cs.R, enc, other)
		cs.Desc = M{"seed": kind, "mutation": mut, "input_hex": hexOf(m)}
		c03Run(cs, m, someTypes(cs), allocCap)
		cs.Count(len(m) >= 1, kind, m)
		if cs.Idx%6 == 0 && len(enc) <= 160 {
			for cut := 0; cut < len(enc); cut++ {
				cs.Desc = M{"seed": kind, "mutation": fmt.Sprintf("truncate@%d", cut), "input_hex": hexOf(enc[:cut])}
				c03Run(cs, enc[:cut], []byte{ref.STRUCT, byte(cs.R.Intn(256))}, allocCap)
			}
			cs.C.Obs("full truncation sweeps", 1)
		}
		if cs.Idx%10 == 0 && len(enc) <= 120 && len(enc) > 0 {
			// every byte position replaced by each boundary value
			pos := cs.R.Intn(len(enc))
			for _, v := range gen.BoundaryBytes {
				mm := append([]byte(nil), enc...)
				mm[pos] = v
				cs.Desc = M{"seed": kind, "mutation": fmt.Sprintf("subst@%d=%#x", pos, v), "input_hex": hexOf(mm)}
				c03Run(cs, mm, []byte{ref.STRUCT, ref.MAP}, allocCap)
			}
			cs.C.Obs("boundary substitution sweeps", 1)
		}
		if cs.WantSample() && cs.Idx%977 == 5 {
			cs.Sample(cs.Desc)
		}
	})

	// (4b) large well-formed containers (element counts around 2^14, 2^15, 2^16: index arithmetic)
	counts := []int{16383, 16384, 16385, 32767, 32768, 32769, 40000, 65535, 65536, 70000}
	c.Stage("large-containers", int64(len(counts)*4), true, func(cs *drv.Case) {
		n := counts[cs.Idx%int64(len(counts))]
		shape := cs.Idx / int64(len(counts))
		var v ref.Value
		elems := func(t byte, k int) []ref.Value {
			out := make([]ref.Value, k)
			for i := range out {
				out[i] = ref.Value{T: t, I: int64(i & 0x7f), Bool: i%2 == 0}
			}
			return out
		}
		switch shape {
		case 0:
			v = ref.Value{T: ref.LIST, VT: ref.BYTE, Elems: elems(ref.BYTE, n)}
		case 1:
			v = ref.Value{T: ref.SET, VT: ref.BOOL, Elems: elems(ref.BOOL, n)}
		case 2:
			v = ref.Value{T: ref.MAP, KT: ref.BYTE, VT: ref.BYTE, Elems: elems(ref.BYTE, 2*n)}
		default:
			v = ref.Value{T: ref.STRUCT, Fields: []ref.Field{{ID: 1, V: ref.Value{T: ref.LIST, VT: ref.I16, Elems: elems(ref.I16, n)}}}}
		}
		field := ref.EncFieldBegin(nil, v.T, 7)
		field = v.Encode(field)
		cs.Desc = M{"shape": shape, "elements": n, "input_len": len(field)}
		c03Run(cs, field, []byte{ref.STRUCT}, allocCap)            // as an unknown-field sequence / struct body
		c03Run(cs, append(field, 0), []byte{ref.STRUCT}, allocCap) // as a complete struct
		cs.Count(true, "large", shape, n)
		cs.C.Obs("large-container cases", 1)
	})

	// (4b') a long-lived process: more than 2^31 and more than 2^32 calls of the string readers with the span
	// allocator on (any call counter, round-robin index or offset kept in 32 bits has wrapped by then). Thorough
	// tier only: about a minute of nothing but calls.
	if c.Thorough() && (c.Flavour == "plain" || c.Flavour == "go126") {
		c.Stage("call-counters-wrap", 2, true, func(cs *drv.Case) {
			thrift.SetSpanCache(true)
			defer thrift.SetSpanCache(false)
			in := [][]byte{ref.EncString(nil, ""), ref.EncString(nil, "k"), ref.EncString(nil, "a-key-of-some-length")}[cs.R.Intn(3)]
			want := string(in[4:])
			total := uint64(1)<<31 + 1<<16
			if cs.Idx == 1 {
				total = uint64(1)<<32 + 1<<16
			}
			cs.Desc = M{"calls": total, "input_hex": hexOf(in)}
			for i := uint64(0); i < total; i++ {
				var s string
				var n int
				var err error
				if i&1 == 0 {
					s, n, err = thrift.Binary.ReadString(in)
				} else {
					var b []byte
					b, n, err = thrift.Binary.ReadBinary(in)
					s = string(b)
				}
				if err != nil || n != len(in) || s != want {
					cs.Fail("decoder-result-after-many-calls", M{"entry": "Binary.ReadString/ReadBinary"}, M{"call": i, "err": errString(err), "n": n, "got": s})
					return
				}
			}
			cs.Count(true, "wrap", cs.Idx)
			cs.C.Obs("calls made to pass 32-bit call counts", int64(total))
		})
	}

	// (4c) the same entry points with the span allocator switched on (after it has been on, off and on again)
	c.Stage("span-cache-on", c.Pick(4000, 100000), false, func(cs *drv.Case) {
		thrift.SetSpanCache(true)
		thrift.SetSpanCache(false)
		thrift.SetSpanCache(true)
		defer thrift.SetSpanCache(false)
		enc, kind := seedEncoding(cs)
		m := enc
		mut := "valid"
		if cs.R.Intn(3) > 0 {
			m, mut = gen.Mutate(cs.R, enc, nil)
		}
		cs.Desc = M{"seed": kind, "mutation": mut, "span_cache": true, "input_hex": hexOf(m)}
		c03Run(cs, m, someTypes(cs), allocCap)
		cs.Count(len(m) >= 1, "span", kind, m)
		cs.C.Obs("span-cache-on cases", 1)
	})

	// (5) huge declared sizes on the non-allocating entry points
	c.Stage("huge-sizes", 64, true, func(cs *drv.Case) {
		sizes := []uint32{0x7fffffff, 0x80000000, 0xffffffff, 0x7ffffffc, 0x00ffffff, 0x40000000, 0xfffffffc, 0x10000}
		sz := sizes[cs.Idx%8]
		shapes := [][]byte{
			ref.U32(nil, sz),
			ref.EncMapBegin(nil, ref.I32, ref.I64, sz),
			ref.EncMapBegin(nil, ref.STRING, ref.I64, sz),
			ref.EncListBegin(nil, ref.DOUBLE, sz),
			ref.EncListBegin(nil, ref.STRUCT, sz),
			append(ref.EncFieldBegin(nil, ref.MAP, 9), ref.EncMapBegin(nil, ref.BYTE, ref.BYTE, sz)...),
			append(ref.U32(nil, 0x80010001), ref.U32(nil, sz)...),
			append(ref.EncFieldBegin(nil, ref.STRING, 1), ref.U32(nil, sz)...),
		}
		b := append(shapes[cs.Idx/8], 0, 0, 0, 0, 0, 0, 0, 0)
		cs.Desc = M{"input_hex": hexOf(b)}
		c03Run(cs, b, []byte{ref.STRING, ref.MAP, ref.LIST, ref.SET, ref.STRUCT}, allocCap)
		cs.Count(true, b)
	})
}

// c03DeepRecursion feeds every recursive entry point hundreds of thousands of nested containers
// with the goroutine stack capped at 64 MiB: recursion that is not bounded by a depth limit dies
// with a fatal stack overflow (the worker crashes; the driver reports the case from the sidecar),
// bounded recursion returns an error within microseconds.
func c03DeepRecursion(c *drv.Ctx) {
	// inputs in a local array of a goroutine whose stack has to grow (is moved) while the decoder recurses:
	// a bound kept as an integer address goes stale there, which no heap or mapped input can show
	c.Stage("stack-resident-input", c.Pick(2400, 24000), false, func(cs *drv.Case) {
		r := cs.R
		pad := int(cs.Idx % 300)
		depth := 20 + r.Intn(44)
		var nested []byte
		var t byte
		if r.Intn(2) == 0 {
			t = []byte{ref.STRUCT, ref.MAP, ref.SET, ref.LIST}[r.Intn(4)]
			nested = gen.Nested(t, depth, r.Intn(3))
		} else {
			nested, t = gen.NestedPath(gen.NestPaths[r.Intn(len(gen.NestPaths))], depth, r.Intn(2) == 0)
		}
		which := r.Intn(4) // 0..2: a FastRead struct with the nested value as an unknown field; 3: Binary.Skip
		in := nested
		if which < 3 {
			in = append(ref.EncFieldBegin(nil, t, 100+int16(r.Intn(100))), nested...)
			in = append(in, 0)
		}
		if len(in) > 1024 {
			return
		}
		if r.Intn(3) > 0 {
			in = in[:len(in)-1-r.Intn(minInt(len(in)-1, 60))]
		}
		var o stackSkipResult
		name := "Binary.Skip"
		if which == 3 {
			o = stackSkip(in, t, pad)
		} else {
			name = []string{"Base.FastRead", "BaseResp.FastRead", "ApplicationException.FastRead"}[which]
			o = stackFastRead(in, which, pad)
		}
		cs.Desc = M{"entry": name, "pad_frames": pad, "depth": depth, "input_hex": hexOf(in)}
		if o.onStack {
			cs.C.Obs("inputs on a goroutine stack", 1)
		}
		det := M{"entry": name, "input_hex": hexOf(in), "input_len": len(in), "pad_frames": pad, "observed_n": o.n, "observed_err": errString(o.err), "on_stack": o.onStack}
		if o.panic != nil {
			det["panic"] = fmt.Sprint(o.panic)
			cs.Fail("decoder-panic", M{"entry": name, "placement": "stack"}, det)
		} else if o.err == nil && o.n > len(in) {
			cs.Fail("decoder-over-report", M{"entry": name, "placement": "stack"}, det)
		}
		cs.Count(true, "stack", which, pad, in)
	})

	// large heap inputs skipped again and again while another goroutine forces collections: the collector
	// scans the stack of the recursing skipper, so an invalid pointer kept there (one past the end of the
	// buffer, a stale address) is fatal ("found bad pointer in Go heap") - the process dies instead of
	// Skip returning, and the driver reports the dead worker
	if !c.Slow() {
		gcSizes := []int{40000, 33001, 100003, 65537}
		c.Stage("skip-during-gc", int64(len(gcSizes)), true, func(cs *drv.Case) {
			size := gcSizes[cs.Idx]
			// list<struct{1: i32}> filling about size bytes, then padded with a string field so that the
			// length is exactly size (not a multiple of the allocator's span sizes)
			n := (size - 5) / 8
			b := ref.EncListBegin(nil, ref.STRUCT, uint32(n))
			for i := 0; i < n; i++ {
				b = append(b, ref.I32, 0, 1, byte(i>>24), byte(i>>16), byte(i>>8), byte(i), 0)
			}
			in := make([]byte, len(b)) // exact-size heap object
			copy(in, b)
			stop := make(chan struct{})
			done := make(chan struct{})
			go func() {
				defer close(done)
				for {
					select {
					case <-stop:
						return
					default:
						runtime.GC()
					}
				}
			}()
			iters := int(cs.C.Pick(40000, 400000))
			bad := 0
			for i := 0; i < iters; i++ {
				if k, err := thrift.Binary.Skip(in, thrift.LIST); err != nil || k != len(in) {
					bad++
				}
			}
			close(stop)
			<-done
			cs.Desc = M{"input_bytes": len(in), "skips": iters, "shape": "list<struct{i32}>"}
			if bad > 0 {
				cs.Fail("decoder-wrong-result", M{"entry": "Binary.Skip", "when": "during garbage collections"}, M{"wrong_results": bad, "of": iters, "input_bytes": len(in)})
			}
			cs.Count(true, "gc", size)
			cs.C.Obs("skips during forced collections", int64(iters))
		})
	}

	c.Stage("deep-recursion", 10, true, func(cs *drv.Case) {
		old := debug.SetMaxStack(64 << 20)
		defer debug.SetMaxStack(old)
		n := 400000
		var b []byte
		var t byte = ref.STRUCT
		switch cs.Idx % 5 {
		case 4:
			t = ref.SET
			for i := 0; i < n; i++ {
				b = append(b, ref.SET, 0, 0, 0, 1)
			}
		case 0:
			for i := 0; i < n; i++ {
				b = append(b, ref.STRUCT, 0, 1)
			}
		case 1:
			t = ref.LIST
			for i := 0; i < n; i++ {
				b = append(b, ref.LIST, 0, 0, 0, 1)
			}
		case 2:
			t = ref.MAP
			for i := 0; i < n; i++ {
				b = append(b, ref.I32, ref.MAP, 0, 0, 0, 1, 0, 0, 0, 9)
			}
		default:
			t = ref.MAP
			for i := 0; i < n; i++ {
				b = append(b, ref.MAP, ref.I32, 0, 0, 0, 1)
			}
		}
		if cs.Idx >= 5 {
			b = append(ref.EncFieldBegin(nil, t, 5), b...) // as a field of a struct / unknown-field sequence
			t = ref.STRUCT
		}
		cs.Desc = M{"nested_containers": n, "type": t, "input_len": len(b), "stack_cap": "64 MiB"}
		// these inputs declare no size above 1: the allocation cap (a scan of 4-byte windows) does not apply
		c03Run(cs, b, []byte{t}, 1<<31)
		cs.Count(true, "deep", cs.Idx)
		cs.C.Obs("deep-recursion cases", 1)
	})

	// (7b) TTHeader frames that declare up to 255 transform ids and are long enough to hold them (the encoder never
	// writes any): decoded or refused, not a panic
	c.Stage("ttheader-transform-ids", 16*3, true, func(cs *drv.Case) {
		count := 0xf0 + int(cs.Idx%16)
		infoLen := []int{256, 260, 400}[cs.Idx/16]
		info := make([]byte, infoLen)
		info[0] = 0 // protocol id: thrift binary
		info[1] = byte(count)
		for i := 2; i < infoLen && i < 2+count; i++ {
			info[i] = byte(cs.R.Intn(4))
		}
		frame := ref.U32(nil, uint32(10+infoLen+5))
		frame = append(frame, 0x10, 0x00, 0x00, 0x00)
		frame = ref.U32(frame, 7)
		frame = ref.U16(frame, uint16(infoLen/4))
		frame = append(frame, info...)
		frame = append(frame, 1, 2, 3, 4, 5)
		cs.Desc = M{"transform_count_byte": count, "header_info_len": infoLen}
		c03Run(cs, frame, nil, 1<<20)
		cs.Count(true, "tthtransforms", cs.Idx)
		cs.C.Obs("frames declaring 240..255 transform ids", 1)
	})

	// (8) wide instead of deep: millions of siblings at one level take no more stack than one of them
	c.Stage("wide-values", 3, true, func(cs *drv.Case) {
		old := debug.SetMaxStack(32 << 20)
		defer debug.SetMaxStack(old)
		n := 1500000
		var b []byte
		t := byte(ref.STRUCT)
		switch cs.Idx {
		case 0: // a struct with n boolean fields
			b = make([]byte, 0, 4*n+1)
			for i := 0; i < n; i++ {
				b = append(b, ref.BOOL, byte(i>>8), byte(i), 1)
			}
			b = append(b, 0)
		case 1: // a list of n empty structs
			t = ref.LIST
			b = ref.EncListBegin(nil, ref.STRUCT, uint32(n))
			b = append(b, make([]byte, n)...)
		default: // a struct whose n fields are empty strings
			b = make([]byte, 0, 7*n+1)
			for i := 0; i < n; i++ {
				b = append(b, ref.STRING, byte(i>>8), byte(i), 0, 0, 0, 0)
			}
			b = append(b, 0)
		}
		cs.Desc = M{"siblings": n, "type": t, "input_len": len(b), "stack_cap": "32 MiB"}
		for _, which := range []string{"Binary.Skip", "BytesSkipDecoder", "BufferReader.Skip", "SkipDecoder", "ReaderSkipDecoder"} {
			var got int
			var err error
			switch which {
			case "Binary.Skip":
				got, err = thrift.Binary.Skip(b, thrift.TType(t))
			case "BytesSkipDecoder":
				d := thrift.NewBytesSkipDecoder(b)
				var out []byte
				out, err = d.Next(thrift.TType(t))
				got = len(out)
				d.Release()
			case "BufferReader.Skip":
				rd := bufiox.NewBytesReader(b)
				br := thrift.NewBufferReader(rd)
				err = br.Skip(thrift.TType(t))
				got = rd.ReadLen()
				br.Recycle()
			case "SkipDecoder":
				rd := bufiox.NewBytesReader(b)
				d := thrift.NewSkipDecoder(rd)
				var out []byte
				out, err = d.Next(thrift.TType(t))
				got = len(out)
				d.Release()
			default:
				// (this decoder re-copies what it has read so far on every piece: a fraction of the siblings keeps
				// the case short; the recursion it shares with the other two decoders is exercised by them)
				small := b
				switch cs.Idx {
				case 0:
					small = append(append([]byte(nil), b[:4*50000]...), 0)
				case 1:
					small = append(ref.EncListBegin(nil, ref.STRUCT, 50000), make([]byte, 50000)...)
				default:
					small = append(append([]byte(nil), b[:7*50000]...), 0)
				}
				d := thrift.NewReaderSkipDecoder(bytes.NewReader(small))
				var out []byte
				out, err = d.Next(thrift.TType(t))
				got = len(out) + len(b) - len(small)
				d.Release()
			}
			if err != nil || got != len(b) {
				cs.Fail("decoder-wide-value", M{"entry": which}, M{"err": errString(err), "consumed": got, "input_len": len(b), "message": "a well-formed value with very many siblings at one level was not skipped"})
				return
			}
		}
		if cs.Idx != 1 {
			if fs, err := unknownfields.ConvertUnknownFields(b[:len(b)-1]); err != nil || len(fs) != n {
				cs.Fail("decoder-wide-value", M{"entry": "ConvertUnknownFields"}, M{"err": errString(err), "fields": len(fs)})
				return
			}
			var bs base.Base
			if l, err := bs.FastRead(b); err != nil || l != len(b) {
				cs.Fail("decoder-wide-value", M{"entry": "Base.FastRead"}, M{"err": errString(err), "consumed": l, "input_len": len(b)})
				return
			}
		}
		cs.Count(true, "wide", cs.Idx)
		cs.C.Obs("wide-value cases", 1)
	})
}
