//go:build verif

package mon

import (
	"fmt"
	"hash/maphash"

	"github.com/cloudwego/gopkg/container/strmap"

	"verifharness/drv"
)

// c07Hooks: this build has the library's verif-tagged accessors (hash seed, slot count).
const c07Hooks = true

// c07LongChain loads a key set in which 10..60 keys fall into ONE hash slot (found with the map's own seed,
// read through the hook) next to ordinary keys, and compares the map with the Go map; absent keys of the
// same slot are probed as well. With random seeds a chain this long practically never occurs, so no
// black-box workload reaches the code that handles it.
func c07LongChain(cs *drv.Case) {
	r := cs.R
	chain := 10 + r.Intn(51)
	others := r.Intn(80)
	n := chain + others
	m := strmap.New[int]()
	dummy := make([]string, n)
	vals := make([]int, n)
	for i := range dummy {
		dummy[i] = fmt.Sprintf("dummy-%d", i)
	}
	if err := m.LoadFromSlice(dummy, vals); err != nil {
		cs.Fail("strmap-load-error", M{"map": "StrMap[int]"}, M{"err": errString(err)})
		return
	}
	slots, seed := uint32(m.VerifSlots()), m.VerifSeed()
	if slots == 0 {
		cs.Fail("harness-self-check", M{"what": "slot count hook"}, M{"slots": slots})
		return
	}
	target := uint32(r.Intn(int(slots)))
	want := map[string]int{}
	var probes []string
	for i := 0; len(want) < chain || len(probes) < 8; i++ {
		k := fmt.Sprintf("k%d-%d", cs.Idx, i)
		if uint32(maphash.String(seed, k))%slots != target {
			continue
		}
		if len(want) < chain {
			want[k] = i + 1
		} else {
			probes = append(probes, k) // same slot, not loaded
		}
	}
	for i := 0; len(want) < n; i++ {
		want[fmt.Sprintf("o%d-%d", cs.Idx, i)] = -i - 1
	}
	cs.Desc = M{"keys_in_one_slot": chain, "other_keys": others, "slots": slots}
	if err := m.LoadFromMap(want); err != nil {
		cs.Fail("strmap-load-error", M{"map": "StrMap[int]"}, M{"err": errString(err)})
		return
	}
	if uint32(m.VerifSlots()) != slots {
		// the slot count is a function of the number of items: the crafted keys would not collide
		cs.C.Obs("long-chain cases with a changed slot count (not judged)", 1)
		return
	}
	c07CheckInt(cs, m, want, append(probes, "", "k", "dummy-0"), fmt.Sprintf("%d keys in one hash slot", chain))
	cs.Count(true, "chain", chain, others)
	cs.C.Obs("loads with a crafted long collision chain", 1)
	cs.C.ObsMax("max_keys_in_one_slot", int64(chain))
}
