package mon

import (
	"bytes"
	"errors"
	"fmt"
	"io"
	"math"
	"time"

	"github.com/cloudwego/gopkg/bufiox"

	"verifharness/doubles"
	"verifharness/drv"
	"verifharness/gen"
	"verifharness/san"
)

func init() { drv.Register("C04", monC04) }

// symbol i of the 33-symbol alphabet
func rSymbol(i int) rOp {
	if i == 32 {
		return rOp{Kind: opRelease}
	}
	return rOp{Kind: i / 8, N: rSizes[i%8]}
}

// behaviours of the exhaustive stage
const nBehaviours = 6

func behaviourSpec(cs *drv.Case, k int, need int) (srcSpec, readerOpts) {
	r := cs.R
	switch k {
	case 0: // plenty of data, big chunks
		return srcSpec{Len: need + 5000, ErrAt: need + 5000, Sched: doubles.SchedHuge}, readerOpts{}
	case 1: // exactly enough, EOF together with the last data, random chunks
		return srcSpec{Len: need, ErrAt: need, Sched: doubles.SchedRandom, WithData: true}, readerOpts{}
	case 2: // runs out half way, custom error after the data, small chunks
		return srcSpec{Len: need, ErrAt: need / 2, ErrKind: 2, Sched: doubles.SchedSmall}, readerOpts{}
	case 3: // mixed schedule with zero-byte reads, one byte more than needed
		return srcSpec{Len: need + 1, ErrAt: need + 1, Sched: doubles.SchedMixed, ZeroMax: 3, ErrKind: 1, WithData: r.Intn(2) == 0}, readerOpts{}
	case 4: // 4096-byte chunks, error with data, stream shorter by one byte
		l := need - 1
		if l < 0 {
			l = 0
		}
		return srcSpec{Len: l, ErrAt: l, Sched: doubles.SchedBuf, WithData: true}, readerOpts{}
	}
	// bytes-backed reader
	l := need
	if r.Intn(2) == 0 {
		l = need / 2
	}
	return srcSpec{Len: l, ErrAt: l}, readerOpts{bytesReader: true, capClass: r.Intn(4)}
}

func monC04(c *drv.Ctx) {
	// (1) bounded-exhaustive histories x behaviours
	maxLen := int(c.Pick(3, 4))
	if c.Flavour == "poison" {
		maxLen = int(c.Pick(2, 3))
	}
	for n := 1; n <= maxLen; n++ {
		n := n
		total := gen.Pow(33, n) * nBehaviours
		c.Stage(fmt.Sprintf("exhaustive-len%d", n), total, true, func(cs *drv.Case) {
			beh := int(cs.Idx % nBehaviours)
			code := cs.Idx / nBehaviours
			ops := make([]rOp, n)
			for i := n - 1; i >= 0; i-- {
				ops[i] = rSymbol(int(code % 33))
				code /= 33
			}
			spec, o := behaviourSpec(cs, beh, sumOps(ops))
			cs.Desc = M{"ops": opsString(ops), "source": spec.desc(), "bytes_reader": o.bytesReader, "cap_class": o.capClass}
			nt := runReaderHistory(cs, ops, spec, o)
			cs.Count(nt, opsString(ops), beh, spec.Len, spec.ErrAt, o.capClass)
			if nt && cs.WantSample() && cs.Idx%977 == 1 {
				cs.Sample(cs.Desc)
			}
		})
	}

	// (2) random histories
	nRandom := c.Pick(20000, 2000000)
	if c.Flavour == "poison" {
		nRandom = c.Pick(4000, 200000)
	}
	c.Stage("random", nRandom, false, func(cs *drv.Case) {
		r := cs.R
		n := 1 + r.Intn(40)
		if r.Intn(20) == 0 {
			n = 100 + r.Intn(200)
		}
		ops := randomReaderOps(r, n, r.Intn(4) == 0)
		need := sumOps(ops)
		spec := randomSpec(r, need)
		o := readerOpts{}
		if r.Intn(5) == 0 {
			o.bytesReader = true
			o.capClass = r.Intn(5)
			spec.ErrAt = spec.Len
		}
		cs.Desc = M{"ops": opsString(ops), "source": spec.desc(), "bytes_reader": o.bytesReader, "cap_class": o.capClass}
		nt := runReaderHistory(cs, ops, spec, o)
		cs.Count(nt, opsString(ops), spec, o.bytesReader, o.capClass)
		if nt && cs.WantSample() && cs.Idx%211 == 1 && n < 12 {
			cs.Sample(cs.Desc)
		}
	})

	// (2b) megabytes consumed and peeked between two Releases, in many pieces, every slice kept: whatever bound an
	// implementation puts on its buffer, what was handed out stays valid and in order until Release
	megaTotals := []int{1<<20 + 4097, 2<<20 + 1, 5 << 20}
	c.Stage("megabytes-between-releases", int64(len(megaTotals)*2*3), true, func(cs *drv.Case) {
		total := megaTotals[cs.Idx%int64(len(megaTotals))]
		piece := []int{65536, 300000}[(cs.Idx/int64(len(megaTotals)))%2]
		sched := []int{doubles.SchedHuge, doubles.SchedBuf, doubles.SchedRandom}[cs.Idx/int64(len(megaTotals)*2)]
		var ops []rOp
		for acc, k := 0, 0; acc < total; acc, k = acc+piece, k+1 {
			switch k % 4 {
			case 0:
				ops = append(ops, rOp{Kind: opPeek, N: piece / 2}, rOp{Kind: opNext, N: piece})
			case 1:
				ops = append(ops, rOp{Kind: opNext, N: piece})
			case 2:
				ops = append(ops, rOp{Kind: opReadBinary, N: piece})
			default:
				ops = append(ops, rOp{Kind: opSkip, N: piece - 7}, rOp{Kind: opNext, N: 7})
			}
		}
		ops = append(ops, rOp{Kind: opRelease}, rOp{Kind: opNext, N: 5}, rOp{Kind: opPeek, N: 9000}, rOp{Kind: opRelease})
		need := sumOps(ops) + 20000
		spec := srcSpec{Len: need, ErrAt: need, Sched: sched}
		cs.Desc = M{"pieces": len(ops) - 4, "piece_bytes": piece, "between_releases": total, "source": spec.desc()}
		runReaderHistory(cs, ops, spec, readerOpts{retain: true})
		cs.Count(true, "mega", total, piece, sched)
		cs.C.Obs("histories with more than 1 MiB between two Releases", 1)
	})

	// (3) short streams: every error position x {with data, after data} x error kind
	c.Stage("error-positions", 65*66/2*2*3, true, func(cs *drv.Case) {
		// enumerate (L, errAt<=L, withData, kind)
		idx := cs.Idx
		kind := int(idx % 3)
		idx /= 3
		withData := idx%2 == 1
		idx /= 2
		L, errAt := 0, 0
		for l := 0; l <= 64; l++ {
			if idx <= int64(l) {
				L, errAt = l, int(idx)
				break
			}
			idx -= int64(l + 1)
		}
		r := cs.R
		for rep := 0; rep < 4; rep++ {
			nOps := 1 + r.Intn(6)
			ops := make([]rOp, nOps)
			for i := range ops {
				ops[i] = rOp{Kind: r.Intn(5), N: r.Intn(L + 3)}
				if r.Intn(4) == 0 {
					ops[i].N = []int{0, 1, L, errAt, errAt + 1, L + 1}[r.Intn(6)]
				}
			}
			spec := srcSpec{Len: L, ErrAt: errAt, ErrKind: kind, WithData: withData, Sched: []int{doubles.SchedOne, doubles.SchedSmall, doubles.SchedHuge, doubles.SchedMixed}[rep], ZeroMax: rep % 3}
			cs.Desc = M{"ops": opsString(ops), "source": spec.desc()}
			runReaderHistory(cs, ops, spec, readerOpts{})
		}
		cs.Count(true, "errpos", L, errAt, withData, kind)
		cs.C.Obs("error-position cases", 1)
	})

	// (3b) long but finite runs of empty reads between chunks (any fragmentation must be tolerated;
	// 100 or more consecutive empty reads count as "no progress" and are exercised in stage 4)
	c.Stage("zero-runs", 99*4, true, func(cs *drv.Case) {
		run := int(cs.Idx%99) + 1
		sched := []int{doubles.SchedOne, doubles.SchedSmall, doubles.SchedBuf, doubles.SchedRandom}[cs.Idx/99]
		ops := []rOp{{Kind: opNext, N: 3}, {Kind: opPeek, N: 10}, {Kind: opReadBinary, N: 9}, {Kind: opSkip, N: 5}, {Kind: opRelease}, {Kind: opNext, N: 40}}
		if sched != doubles.SchedOne {
			ops = append(ops, rOp{Kind: opNext, N: 9000}, rOp{Kind: opReadBinary, N: 5000})
		}
		need := sumOps(ops)
		spec := srcSpec{Len: need + 20, ErrAt: need + 20, Sched: sched, ZeroRun: run, WithData: cs.Idx%2 == 0}
		cs.Desc = M{"ops": opsString(ops), "source": spec.desc()}
		runReaderHistory(cs, ops, spec, readerOpts{})
		cs.Count(true, "zerorun", run, sched)
		cs.C.ObsMax("max_zero_run_tolerated", int64(run))
	})

	// (3b') empty reads between the last data and the error, every count below the no-progress limit: the error
	// that surfaces is still the source's own, and the data before it is still delivered
	c.Stage("empty-reads-before-the-error", 100*3, true, func(cs *drv.Case) {
		k := int(cs.Idx % 100)
		kind := int(cs.Idx / 100)
		L := []int{0, 7, 5000}[cs.R.Intn(3)]
		ops := []rOp{{Kind: opPeek, N: L + 1}, {Kind: opNext, N: L}, {Kind: opNext, N: 1}, {Kind: opReadBinary, N: 4}, {Kind: opSkip, N: 1}, {Kind: opRelease}, {Kind: opPeek, N: 1}}
		if cs.R.Intn(2) == 0 {
			ops = append([]rOp{{Kind: opNext, N: L / 2}, {Kind: opReadBinary, N: L + 9}}, ops...)
		}
		spec := srcSpec{Len: L, ErrAt: L, ErrKind: kind, Sched: []int{doubles.SchedOne, doubles.SchedSmall, doubles.SchedHuge, doubles.SchedRandom}[cs.R.Intn(4)], ZerosBeforeErr: k}
		if k == 99 {
			spec.ZeroMax = 0
		}
		cs.Desc = M{"ops": opsString(ops), "source": spec.desc()}
		runReaderHistory(cs, ops, spec, readerOpts{})
		cs.Count(true, "zerosbeforeerr", k, kind, L)
		cs.C.ObsMax("max_empty_reads_before_the_error", int64(k))
	})

	// (3c) one reader used for a very long time: more Release cycles than any 16-bit counter holds
	c.Stage("many-release-cycles", 1, true, func(cs *drv.Case) {
		if san.PoolShim {
			return // the shim re-scans its ever-growing quarantine at every Release: quadratic in the harness
		}
		n := 66000
		ops := make([]rOp, 0, 2*n+6)
		for i := 0; i < n; i++ {
			ops = append(ops, rOp{Kind: []int{opNext, opPeek, opReadBinary, opSkip}[i%4], N: 1 + i%3}, rOp{Kind: opRelease})
		}
		ops = append(ops, rOp{Kind: opNext, N: 5000}, rOp{Kind: opPeek, N: 9}, rOp{Kind: opRelease}, rOp{Kind: opNext, N: 3})
		need := sumOps(ops) + 100
		spec := srcSpec{Len: need, ErrAt: need, Sched: doubles.SchedBuf}
		cs.Desc = M{"release_cycles": n, "source": spec.desc()}
		runReaderHistory(cs, ops, spec, readerOpts{})
		cs.Count(true, "manyrelease", cs.Idx)
		cs.C.Obs("histories with more than 65536 Release cycles", 1)
	})

	// (3a') standard-library sources holding the whole stream (readers that also have Len/WriteTo/ReadByte, the
	// iotest fragmenters, Limit/Multi/Section readers): histories that mix requests beyond the stream (which must
	// fail and consume nothing) with requests the stream can still satisfy afterwards
	c.Stage("std-sources", c.Pick(6000, 200000), false, func(cs *drv.Case) {
		r := cs.R
		kind := 1 + int(cs.Idx%nStdSources)
		L := []int{0, 1, 10, 100, 4096, 5000, 9000, 20000}[r.Intn(8)]
		n := 2 + r.Intn(8)
		ops := make([]rOp, n)
		for i := range ops {
			ops[i] = rOp{Kind: r.Intn(5), N: r.Intn(L + 2)}
			switch r.Intn(5) {
			case 0: // beyond what the stream holds
				ops[i].N = L + 1 + r.Intn(10000)
			case 1:
				ops[i].N = []int{0, 1, L, L / 2, 4096, 4097}[r.Intn(6)]
			}
			if ops[i].Kind == opRelease {
				ops[i].N = 0
			}
		}
		spec := srcSpec{Len: L, ErrAt: L}
		cs.Desc = M{"ops": opsString(ops), "source": stdSourceNames[kind], "stream_len": L}
		runReaderHistory(cs, ops, spec, readerOpts{std: kind})
		cs.Count(true, "std", kind, L, opsString(ops))
		cs.C.Obs("histories over standard-library sources", 1)
	})

	// (3c) a bytes-backed reader asked for far more than it holds: everything there will ever be is in the
	// slice, so the answer is the source's error (io.EOF), for every n, with nothing consumed
	hugeN := []int{1 << 20, 1 << 31, 1<<32 + 7, 1 << 40, 1 << 45, 1 << 50, 1 << 61, 1<<62 + 1, math.MaxInt64}
	c.Stage("bytes-reader-huge-requests", int64(len(hugeN)*3*3*3), true, func(cs *drv.Case) {
		i := int(cs.Idx)
		n := hugeN[i%len(hugeN)]
		i /= len(hugeN)
		kind := i % 3 // Next, Peek, Skip
		i /= 3
		pre := i % 3 // nothing, Next(3), Next(3)+Release
		i /= 3
		L := []int{0, 10, 5000}[i%3]
		data := make([]byte, L)
		for k := range data {
			data[k] = byte(k*7 + 1)
		}
		in := place(data, 0)
		cs.Desc = M{"n": n, "op": []string{"Next", "Peek", "Skip"}[kind], "pre": pre, "data_len": L}
		rd := bufiox.NewBytesReader(in)
		pos := 0
		if pre >= 1 && L >= 3 {
			if b, err := rd.Next(3); err != nil || !bytes.Equal(b, data[:3]) {
				cs.Fail("reader-wrong-bytes", M{"op": "Next"}, M{"message": "Next(3) on a bytes reader failed", "err": errString(err)})
				return
			}
			pos = 3
			if pre == 2 {
				rd.Release(nil)
			}
		}
		before := rd.ReadLen()
		var err error
		var got []byte
		returned, pnc := cs.C.Bounded(60*time.Second, fmt.Sprintf("bytes reader %s(%d) on %d bytes", []string{"Next", "Peek", "Skip"}[kind], n, L), func() {
			switch kind {
			case 0:
				got, err = rd.Next(n)
			case 1:
				got, err = rd.Peek(n)
			default:
				err = rd.Skip(n)
			}
		})
		if !returned {
			cs.Fail("operation-never-returned", M{"reader": "bytes", "op": []string{"Next", "Peek", "Skip"}[kind]}, M{"n": n, "data_len": L, "message": "the call had not returned after 60 s"})
			return // the abandoned call keeps the reader
		}
		if pnc != nil {
			panic(pnc)
		}
		det := M{"n": n, "op": []string{"Next", "Peek", "Skip"}[kind], "data_len": L, "position": pos, "err": errString(err), "returned": len(got)}
		if err == nil {
			cs.Fail("reader-short-success", M{"op": det["op"], "reader": "bytes"}, det)
			return
		}
		if !errors.Is(err, io.EOF) {
			cs.Fail("reader-wrong-error", M{"op": det["op"], "reader": "bytes"}, det)
		}
		if rd.ReadLen() != before {
			det["readlen_before"], det["readlen_after"] = before, rd.ReadLen()
			cs.Fail("reader-consumed-on-failure", M{"op": det["op"], "reader": "bytes"}, det)
		}
		// the rest of the data is still delivered exactly
		rest, err2 := rd.Next(L - pos)
		if err2 != nil || !bytes.Equal(rest, data[pos:]) {
			det["err_after"] = errString(err2)
			cs.Fail("reader-wrong-bytes", M{"op": "Next after a failed huge request", "reader": "bytes"}, det)
		}
		rd.Release(nil)
		cs.Count(true, "hugebytes", cs.Idx)
		cs.C.Obs("huge requests on a bytes reader", 1)
		cs.C.ObsMax("max_request_on_bytes_reader", int64(n))
	})

	// (3d) a stream-backed reader asked for counts no buffer can hold (beyond every size class of the pool and
	// beyond what a doubling size computation survives): a non-nil error, nothing consumed, and the stream is
	// still delivered intact afterwards. (Counts between 2^31 and 2^45 really are buffered - address space is
	// reserved for them - and are left out: the allocation carve-out.)
	absurd := []int{1<<45 + 1, 1 << 50, 1 << 61, 1<<62 + 1, math.MaxInt64}
	c.Stage("stream-reader-absurd-requests", int64(len(absurd)*4*3), true, func(cs *drv.Case) {
		i := int(cs.Idx)
		n := absurd[i%len(absurd)]
		i /= len(absurd)
		kind := i % 4 // Next, Peek, Skip, ReadBinary (a slice header of that length over untouched pages)
		i /= 4
		pre := i % 3
		const L = 5000
		src := &doubles.Source{Len: L, ErrAt: L, Err: io.EOF, Sched: doubles.SchedSmall, R: cs.R, Budget: 1000000}
		rd := bufiox.NewDefaultReader(src)
		cs.Desc = M{"n": n, "op": []string{"Next", "Peek", "Skip", "ReadBinary"}[kind], "pre": pre}
		pos := 0
		if pre >= 1 {
			if b, err := rd.Next(7); err != nil || len(b) != 7 {
				cs.Fail("reader-wrong-bytes", M{"op": "Next"}, M{"message": "Next(7) failed", "err": errString(err)})
				return
			}
			pos = 7
			if pre == 2 {
				rd.Release(nil)
			}
		}
		before := rd.ReadLen()
		var err error
		var got []byte
		m := 0
		returned, pnc := cs.C.Bounded(60*time.Second, "stream reader absurd request", func() {
			switch kind {
			case 0:
				got, err = rd.Next(n)
			case 1:
				got, err = rd.Peek(n)
			case 2:
				err = rd.Skip(n)
			default:
				if n > 1<<46 {
					return // a slice of that length cannot even be described; only the 1<<45+1 case is tried
				}
				mem, free := san.Virtual(n)
				defer free()
				m, err = rd.ReadBinary(mem)
			}
		})
		if !returned {
			cs.Fail("operation-never-returned", M{"reader": "stream", "op": cs.Desc["op"]}, M{"n": n, "message": "the call had not returned after 60 s"})
			return
		}
		if pnc != nil {
			panic(pnc)
		}
		if kind == 3 && n > 1<<46 {
			return
		}
		det := M{"n": n, "op": cs.Desc["op"], "position": pos, "err": errString(err), "returned": len(got), "m": m}
		if err == nil {
			cs.Fail("reader-short-success", M{"op": det["op"], "reader": "stream"}, det)
			return
		}
		if kind != 3 && rd.ReadLen() != before {
			det["readlen_before"], det["readlen_after"] = before, rd.ReadLen()
			cs.Fail("reader-consumed-on-failure", M{"op": det["op"], "reader": "stream"}, det)
			return
		}
		if kind == 3 {
			pos += m // ReadBinary may deliver what there is together with its error
			if m > L {
				cs.Fail("readbinary-over-report", M{"reader": "stream"}, det)
				return
			}
		}
		want := make([]byte, L-pos)
		doubles.FillContent(want, pos)
		rest, err2 := rd.Next(L - pos)
		if err2 != nil || !bytes.Equal(rest, want) {
			det["err_after"] = errString(err2)
			cs.Fail("reader-wrong-bytes", M{"op": "Next after a failed absurd request", "reader": "stream"}, det)
		}
		rd.Release(nil)
		cs.Count(true, "absurd", cs.Idx)
		cs.C.Obs("absurd requests on a stream reader", 1)
	})

	// (4) no-progress source: (0, nil) forever from some position on
	c.Stage("no-progress", c.Pick(400, 20000), false, func(cs *drv.Case) {
		r := cs.R
		stall := r.Intn(10000)
		ops := randomReaderOps(r, 1+r.Intn(8), false)
		spec := srcSpec{Len: stall + 100000, ErrAt: stall, Endless0: true, Sched: r.Intn(doubles.NSched)}
		cs.Desc = M{"ops": opsString(ops), "source": spec.desc()}
		runReaderHistory(cs, ops, spec, readerOpts{})
		cs.Count(true, "noprogress", opsString(ops), stall, spec.Sched)
		cs.C.Obs("no-progress histories", 1)
	})
}
