package mon

import (
	"bytes"
	"errors"
	"fmt"
	"io"
	"math"
	"math/rand"

	"github.com/cloudwego/gopkg/bufiox"
	"github.com/cloudwego/gopkg/protocol/thrift"
	"github.com/cloudwego/gopkg/unsafex"

	"verifharness/doubles"
	"verifharness/drv"
	"verifharness/gen"
	"verifharness/ref"
	"verifharness/san"
)

func init() { drv.Register("C01", monC01) }

const (
	kBool = iota
	kByte
	kI16
	kI32
	kI64
	kDouble
	kString
	kBinary
	kFieldBegin
	kFieldStop
	kMapBegin
	kListBegin
	kSetBegin
	kMessageBegin
	nKinds
)

var kindNames = []string{"bool", "byte", "i16", "i32", "i64", "double", "string", "binary", "fieldBegin", "fieldStop", "mapBegin", "listBegin", "setBegin", "messageBegin"}

// cval is one codec-level value.
type cval struct {
	K      int
	B      bool
	I      int64
	F      uint64
	S      []byte
	T1, T2 byte
	ID     int16
	Size   int
	MType  int32
	Seq    int32
}

func (v cval) String() string {
	switch v.K {
	case kBool:
		return fmt.Sprintf("bool(%v)", v.B)
	case kByte, kI16, kI32, kI64:
		return fmt.Sprintf("%s(%d)", kindNames[v.K], v.I)
	case kDouble:
		return fmt.Sprintf("double(bits %#x)", v.F)
	case kString, kBinary:
		return fmt.Sprintf("%s(len %d)", kindNames[v.K], len(v.S))
	case kFieldBegin:
		return fmt.Sprintf("fieldBegin(type %d,id %d)", v.T1, v.ID)
	case kFieldStop:
		return "fieldStop"
	case kMapBegin:
		return fmt.Sprintf("mapBegin(%d,%d,%d)", v.T1, v.T2, v.Size)
	case kListBegin, kSetBegin:
		return fmt.Sprintf("%s(%d,%d)", kindNames[v.K], v.T1, v.Size)
	}
	return fmt.Sprintf("messageBegin(name len %d,type %d,seq %d)", len(v.S), v.MType, v.Seq)
}

func (v cval) ref(b []byte) []byte {
	switch v.K {
	case kBool:
		return ref.EncBool(b, v.B)
	case kByte:
		return ref.EncByte(b, int8(v.I))
	case kI16:
		return ref.EncI16(b, int16(v.I))
	case kI32:
		return ref.EncI32(b, int32(v.I))
	case kI64:
		return ref.EncI64(b, v.I)
	case kDouble:
		return ref.U64(b, v.F)
	case kString, kBinary:
		return ref.EncBinary(b, v.S)
	case kFieldBegin:
		return ref.EncFieldBegin(b, v.T1, v.ID)
	case kFieldStop:
		return ref.EncFieldStop(b)
	case kMapBegin:
		return ref.EncMapBegin(b, v.T1, v.T2, uint32(v.Size))
	case kListBegin, kSetBegin:
		return ref.EncListBegin(b, v.T1, uint32(v.Size))
	}
	return ref.EncMessageBegin(b, string(v.S), v.MType, v.Seq)
}

func (v cval) length() int {
	x := thrift.Binary
	switch v.K {
	case kBool:
		return x.BoolLength()
	case kByte:
		return x.ByteLength()
	case kI16:
		return x.I16Length()
	case kI32:
		return x.I32Length()
	case kI64:
		return x.I64Length()
	case kDouble:
		return x.DoubleLength()
	case kString:
		return x.StringLength(string(v.S))
	case kBinary:
		return x.BinaryLength(v.S)
	case kFieldBegin:
		return x.FieldBeginLength()
	case kFieldStop:
		return x.FieldStopLength()
	case kMapBegin:
		return x.MapBeginLength()
	case kListBegin:
		return x.ListBeginLength()
	case kSetBegin:
		return x.SetBeginLength()
	}
	return x.MessageBeginLength(string(v.S))
}

func (v cval) writeInPlace(buf []byte) int {
	x := thrift.Binary
	switch v.K {
	case kBool:
		return x.WriteBool(buf, v.B)
	case kByte:
		return x.WriteByte(buf, int8(v.I))
	case kI16:
		return x.WriteI16(buf, int16(v.I))
	case kI32:
		return x.WriteI32(buf, int32(v.I))
	case kI64:
		return x.WriteI64(buf, v.I)
	case kDouble:
		return x.WriteDouble(buf, math.Float64frombits(v.F))
	case kString:
		return x.WriteString(buf, string(v.S))
	case kBinary:
		return x.WriteBinary(buf, v.S)
	case kFieldBegin:
		return x.WriteFieldBegin(buf, thrift.TType(v.T1), v.ID)
	case kFieldStop:
		return x.WriteFieldStop(buf)
	case kMapBegin:
		return x.WriteMapBegin(buf, thrift.TType(v.T1), thrift.TType(v.T2), v.Size)
	case kListBegin:
		return x.WriteListBegin(buf, thrift.TType(v.T1), v.Size)
	case kSetBegin:
		return x.WriteSetBegin(buf, thrift.TType(v.T1), v.Size)
	}
	return x.WriteMessageBegin(buf, string(v.S), v.MType, v.Seq)
}

func (v cval) appendTo(buf []byte) []byte {
	x := thrift.Binary
	switch v.K {
	case kBool:
		return x.AppendBool(buf, v.B)
	case kByte:
		return x.AppendByte(buf, int8(v.I))
	case kI16:
		return x.AppendI16(buf, int16(v.I))
	case kI32:
		return x.AppendI32(buf, int32(v.I))
	case kI64:
		return x.AppendI64(buf, v.I)
	case kDouble:
		return x.AppendDouble(buf, math.Float64frombits(v.F))
	case kString:
		return x.AppendString(buf, string(v.S))
	case kBinary:
		return x.AppendBinary(buf, v.S)
	case kFieldBegin:
		return x.AppendFieldBegin(buf, thrift.TType(v.T1), v.ID)
	case kFieldStop:
		return x.AppendFieldStop(buf)
	case kMapBegin:
		return x.AppendMapBegin(buf, thrift.TType(v.T1), thrift.TType(v.T2), v.Size)
	case kListBegin:
		return x.AppendListBegin(buf, thrift.TType(v.T1), v.Size)
	case kSetBegin:
		return x.AppendSetBegin(buf, thrift.TType(v.T1), v.Size)
	}
	return x.AppendMessageBegin(buf, string(v.S), v.MType, v.Seq)
}

func (v cval) writeStream(w *thrift.BufferWriter) error {
	switch v.K {
	case kBool:
		return w.WriteBool(v.B)
	case kByte:
		return w.WriteByte(int8(v.I))
	case kI16:
		return w.WriteI16(int16(v.I))
	case kI32:
		return w.WriteI32(int32(v.I))
	case kI64:
		return w.WriteI64(v.I)
	case kDouble:
		return w.WriteDouble(math.Float64frombits(v.F))
	case kString:
		return w.WriteString(string(v.S))
	case kBinary:
		return w.WriteBinary(v.S)
	case kFieldBegin:
		return w.WriteFieldBegin(thrift.TType(v.T1), v.ID)
	case kFieldStop:
		return w.WriteFieldStop()
	case kMapBegin:
		return w.WriteMapBegin(thrift.TType(v.T1), thrift.TType(v.T2), v.Size)
	case kListBegin:
		return w.WriteListBegin(thrift.TType(v.T1), v.Size)
	case kSetBegin:
		return w.WriteSetBegin(thrift.TType(v.T1), v.Size)
	}
	return w.WriteMessageBegin(string(v.S), v.MType, v.Seq)
}

// readBuf decodes v's kind from b with the buffer reader; returns a mismatch description or "".
func (v cval) readBuf(b []byte) (l int, mismatch string) {
	x := thrift.Binary
	var err error
	switch v.K {
	case kBool:
		var g bool
		g, l, err = x.ReadBool(b)
		if err == nil && g != v.B {
			mismatch = fmt.Sprintf("got %v", g)
		}
	case kByte:
		var g int8
		g, l, err = x.ReadByte(b)
		if err == nil && g != int8(v.I) {
			mismatch = fmt.Sprintf("got %d", g)
		}
	case kI16:
		var g int16
		g, l, err = x.ReadI16(b)
		if err == nil && g != int16(v.I) {
			mismatch = fmt.Sprintf("got %d", g)
		}
	case kI32:
		var g int32
		g, l, err = x.ReadI32(b)
		if err == nil && g != int32(v.I) {
			mismatch = fmt.Sprintf("got %d", g)
		}
	case kI64:
		var g int64
		g, l, err = x.ReadI64(b)
		if err == nil && g != v.I {
			mismatch = fmt.Sprintf("got %d", g)
		}
	case kDouble:
		var g float64
		g, l, err = x.ReadDouble(b)
		if err == nil && math.Float64bits(g) != v.F {
			mismatch = fmt.Sprintf("got bits %#x", math.Float64bits(g))
		}
	case kString:
		var g string
		g, l, err = x.ReadString(b)
		if err == nil && g != string(v.S) {
			mismatch = fmt.Sprintf("got string of len %d", len(g))
		}
	case kBinary:
		var g []byte
		g, l, err = x.ReadBinary(b)
		if err == nil && !bytes.Equal(g, v.S) {
			mismatch = fmt.Sprintf("got binary of len %d", len(g))
		}
	case kFieldBegin:
		var t thrift.TType
		var id int16
		t, id, l, err = x.ReadFieldBegin(b)
		if err == nil && (byte(t) != v.T1 || id != v.ID) {
			mismatch = fmt.Sprintf("got type %d id %d", byte(t), id)
		}
	case kFieldStop:
		var t thrift.TType
		t, _, l, err = x.ReadFieldBegin(b)
		if err == nil && t != thrift.STOP {
			mismatch = fmt.Sprintf("got type %d", t)
		}
	case kMapBegin:
		var kt, vt thrift.TType
		var sz int
		kt, vt, sz, l, err = x.ReadMapBegin(b)
		if err == nil && (byte(kt) != v.T1 || byte(vt) != v.T2 || sz != v.Size) {
			mismatch = fmt.Sprintf("got %d,%d,%d", byte(kt), byte(vt), sz)
		}
	case kListBegin:
		var et thrift.TType
		var sz int
		et, sz, l, err = x.ReadListBegin(b)
		if err == nil && (byte(et) != v.T1 || sz != v.Size) {
			mismatch = fmt.Sprintf("got %d,%d", byte(et), sz)
		}
	case kSetBegin:
		var et thrift.TType
		var sz int
		et, sz, l, err = x.ReadSetBegin(b)
		if err == nil && (byte(et) != v.T1 || sz != v.Size) {
			mismatch = fmt.Sprintf("got %d,%d", byte(et), sz)
		}
	default:
		var name string
		var mt thrift.TMessageType
		var seq int32
		name, mt, seq, l, err = x.ReadMessageBegin(b)
		if err == nil && (name != string(v.S) || mt != v.MType || seq != v.Seq) {
			mismatch = fmt.Sprintf("got name len %d type %d seq %d", len(name), mt, seq)
		}
	}
	if err != nil {
		mismatch = "error: " + err.Error()
	}
	return
}

func (v cval) readStream(r *thrift.BufferReader) (mismatch string) {
	var err error
	switch v.K {
	case kBool:
		var g bool
		g, err = r.ReadBool()
		if err == nil && g != v.B {
			mismatch = fmt.Sprintf("got %v", g)
		}
	case kByte:
		var g int8
		g, err = r.ReadByte()
		if err == nil && g != int8(v.I) {
			mismatch = fmt.Sprintf("got %d", g)
		}
	case kI16:
		var g int16
		g, err = r.ReadI16()
		if err == nil && g != int16(v.I) {
			mismatch = fmt.Sprintf("got %d", g)
		}
	case kI32:
		var g int32
		g, err = r.ReadI32()
		if err == nil && g != int32(v.I) {
			mismatch = fmt.Sprintf("got %d", g)
		}
	case kI64:
		var g int64
		g, err = r.ReadI64()
		if err == nil && g != v.I {
			mismatch = fmt.Sprintf("got %d", g)
		}
	case kDouble:
		var g float64
		g, err = r.ReadDouble()
		if err == nil && math.Float64bits(g) != v.F {
			mismatch = fmt.Sprintf("got bits %#x", math.Float64bits(g))
		}
	case kString:
		var g string
		g, err = r.ReadString()
		if err == nil && g != string(v.S) {
			mismatch = fmt.Sprintf("got string of len %d (first diff at %d)", len(g), firstDiff([]byte(g), v.S))
		}
	case kBinary:
		var g []byte
		g, err = r.ReadBinary()
		if err == nil && !bytes.Equal(g, v.S) {
			mismatch = fmt.Sprintf("got binary of len %d (first diff at %d)", len(g), firstDiff(g, v.S))
		}
	case kFieldBegin:
		var t thrift.TType
		var id int16
		t, id, err = r.ReadFieldBegin()
		if err == nil && (byte(t) != v.T1 || id != v.ID) {
			mismatch = fmt.Sprintf("got type %d id %d", byte(t), id)
		}
	case kFieldStop:
		var t thrift.TType
		t, _, err = r.ReadFieldBegin()
		if err == nil && t != thrift.STOP {
			mismatch = fmt.Sprintf("got type %d", t)
		}
	case kMapBegin:
		var kt, vt thrift.TType
		var sz int
		kt, vt, sz, err = r.ReadMapBegin()
		if err == nil && (byte(kt) != v.T1 || byte(vt) != v.T2 || sz != v.Size) {
			mismatch = fmt.Sprintf("got %d,%d,%d", byte(kt), byte(vt), sz)
		}
	case kListBegin:
		var et thrift.TType
		var sz int
		et, sz, err = r.ReadListBegin()
		if err == nil && (byte(et) != v.T1 || sz != v.Size) {
			mismatch = fmt.Sprintf("got %d,%d", byte(et), sz)
		}
	case kSetBegin:
		var et thrift.TType
		var sz int
		et, sz, err = r.ReadSetBegin()
		if err == nil && (byte(et) != v.T1 || sz != v.Size) {
			mismatch = fmt.Sprintf("got %d,%d", byte(et), sz)
		}
	default:
		var name string
		var mt thrift.TMessageType
		var seq int32
		name, mt, seq, err = r.ReadMessageBegin()
		if err == nil && (name != string(v.S) || mt != v.MType || seq != v.Seq) {
			mismatch = fmt.Sprintf("got name len %d type %d seq %d", len(name), mt, seq)
		}
	}
	if err != nil {
		mismatch = "error: " + err.Error()
	}
	return
}

var containerSizes = []int{0, 1, 255, 256, 65535, 65536, 1<<31 - 1, 0x01020304}

func genCval(r *rand.Rand, big bool) cval {
	v := cval{K: r.Intn(nKinds)}
	switch v.K {
	case kBool:
		v.B = r.Intn(2) == 1
	case kByte:
		v.I = int64(int8(gen.I64(r)))
	case kI16:
		v.I = int64(gen.I16(r))
	case kI32:
		v.I = int64(gen.I32(r))
	case kI64:
		v.I = gen.I64(r)
	case kDouble:
		v.F = gen.F64Bits(r)
	case kString, kBinary:
		v.S = gen.Bytes(r, gen.StrLen(r, big))
	case kFieldBegin:
		v.T1 = byte(1 + r.Intn(255))
		v.ID = gen.I16(r)
	case kMapBegin:
		v.T1, v.T2 = byte(r.Intn(256)), byte(r.Intn(256))
		v.Size = containerSizes[r.Intn(len(containerSizes))]
	case kListBegin, kSetBegin:
		v.T1 = byte(r.Intn(256))
		v.Size = containerSizes[r.Intn(len(containerSizes))]
	case kMessageBegin:
		v.S = gen.Bytes(r, r.Intn(40))
		v.MType = int32(r.Intn(65536))
		v.Seq = gen.I32(r)
	}
	return v
}

// checkWriters runs the three writers and the length function on one value.
func checkWriters(cs *drv.Case, v cval, want []byte) bool {
	fail := func(check, msg string) bool {
		cs.Fail(check, M{"kind": kindNames[v.K]}, M{"value": v.String(), "want_hex": hexOf(want), "message": msg})
		return false
	}
	if l := v.length(); l != len(want) {
		return fail("length-function", fmt.Sprintf("advertised length %d, wire encoding has %d bytes", l, len(want)))
	}
	// strings and binaries have a second pair of length / writer functions (the no-copy variants): without a direct
	// writer attached they are the same encoding and the same length
	if v.K == kString || v.K == kBinary {
		x := thrift.Binary
		var l2, n2 int
		b2 := make([]byte, len(want))
		if v.K == kString {
			l2 = x.StringLengthNocopy(string(v.S))
			if l2 == len(want) {
				n2 = x.WriteStringNocopy(b2, nil, string(v.S))
			}
		} else {
			l2 = x.BinaryLengthNocopy(v.S)
			if l2 == len(want) {
				n2 = x.WriteBinaryNocopy(b2, nil, v.S)
			}
		}
		if l2 != len(want) {
			return fail("length-function", fmt.Sprintf("the no-copy length function advertises %d, the wire encoding has %d bytes", l2, len(want)))
		}
		if n2 != len(want) || !bytes.Equal(b2, want) {
			return fail("inplace-writer", fmt.Sprintf("the no-copy writer without a direct writer returned %d and wrote %s", n2, hexOf(b2[:minInt(len(b2), 64)])))
		}
	}
	cn := san.NewCanary(len(want), len(want), func(int) byte { return 0xCC })
	n := v.writeInPlace(cn.Buf())
	if n != len(want) || !bytes.Equal(cn.Buf(), want) {
		return fail("inplace-writer", fmt.Sprintf("returned %d, wrote %s", n, hexOf(cn.Buf())))
	}
	cn.Expect(want)
	if off, ok := cn.Check(); !ok {
		return fail("inplace-writer-outside", fmt.Sprintf("wrote outside the buffer at offset %d", off))
	}
	pre := gen.Bytes(cs.R, cs.R.Intn(9))
	spare := cs.R.Intn(2*len(want) + 2)
	if cs.R.Intn(3) == 0 {
		spare = len(want) + 1 + cs.R.Intn(24) // room for the value and live bytes of the caller behind it
	}
	buf := make([]byte, len(pre), len(pre)+spare)
	copy(buf, pre)
	// the spare capacity is live memory of the caller (a slot reserved in a longer buffer): an append writes
	// exactly the appended bytes, nothing behind them
	full := buf[:cap(buf)]
	for i := len(pre); i < len(full); i++ {
		full[i] = 0xA5 ^ byte(i)
	}
	out := v.appendTo(buf)
	if len(out) != len(pre)+len(want) || !bytes.Equal(out[:len(pre)], pre) || !bytes.Equal(out[len(pre):], want) {
		return fail("append-writer", fmt.Sprintf("appended %s", hexOf(out[minInt(len(pre), len(out)):])))
	}
	// the value to append may already lie where it is going to end up (a payload received in place behind its
	// 4-byte length slot, in the spare capacity of the destination): appending it must not destroy it first
	if (v.K == kString || v.K == kBinary) && len(v.S) > 0 {
		blk := make([]byte, len(pre)+4+len(v.S)+cs.R.Intn(9))
		copy(blk, pre)
		val := blk[len(pre)+4 : len(pre)+4+len(v.S)]
		copy(val, v.S)
		var out2 []byte
		if v.K == kString {
			out2 = thrift.Binary.AppendString(blk[:len(pre)], unsafex.BinaryToString(val))
		} else {
			out2 = thrift.Binary.AppendBinary(blk[:len(pre)], val)
		}
		if len(out2) != len(pre)+len(want) || !bytes.Equal(out2[len(pre):], want) {
			return fail("append-writer", fmt.Sprintf("appending a value that lies in the destination's spare capacity, right where it will end up, produced %s", hexOf(out2[minInt(len(pre), len(out2)):minInt(len(out2), len(pre)+64)])))
		}
		cs.C.Obs("appends of values lying in the destination's spare capacity", 1)
	}
	if len(pre)+len(want) <= len(full) { // the value fitted: it was written in place
		for i := len(pre) + len(want); i < len(full); i++ {
			if full[i] != 0xA5^byte(i) {
				return fail("append-writer-beyond", fmt.Sprintf("appending %d bytes changed the byte %d positions behind them in the caller's buffer", len(want), i-len(pre)-len(want)))
			}
		}
		cs.C.Obs("appends into live spare capacity checked", 1)
	}
	return true
}

// c01Sequence checks one sequence of values end to end.
func c01Sequence(cs *drv.Case, vals []cval, sched int, withData bool) {
	var stream []byte
	var offs []int
	for _, v := range vals {
		offs = append(offs, len(stream))
		w := v.ref(nil)
		if !checkWriters(cs, v, w) {
			return
		}
		stream = append(stream, w...)
	}
	desc := func(i int) M {
		return M{"value_index": i, "value": vals[i].String(), "schedule": doubles.SchedNames[sched], "eof_with_data": withData}
	}
	// stream writer over a recording sink and over a bytes writer
	sink := &doubles.Sink{}
	dw := bufiox.NewDefaultWriter(sink)
	bw := thrift.NewBufferWriter(dw)
	// the bytes writer's target may already hold bytes (an encoding appended behind a frame header):
	// they stay, the encoding follows them
	var target []byte
	var prefix []byte
	switch cs.R.Intn(5) {
	case 1:
		prefix = gen.Bytes(cs.R, 1+cs.R.Intn(40))
		target = append(make([]byte, 0, len(prefix)+cs.R.Intn(3)*50), prefix...)
	case 2:
		target = make([]byte, 0, 1+cs.R.Intn(5000))
	case 3:
		target = []byte{} // not nil, no capacity
	}
	yw := bufiox.NewBytesWriter(&target)
	bw2 := thrift.NewBufferWriter(yw)
	// ... and over a foreign bufiox.Writer that keeps WriteBinary payloads by reference and looks at nothing before Flush
	zw := &doubles.ZCWriter{}
	bw3 := thrift.NewBufferWriter(zw)
	for i, v := range vals {
		if err := v.writeStream(bw); err != nil {
			cs.Fail("stream-writer-error", M{"kind": kindNames[v.K]}, desc(i))
			return
		}
		if err := v.writeStream(bw3); err != nil {
			cs.Fail("stream-writer-error", M{"kind": kindNames[v.K], "sink": "zero-copy writer"}, desc(i))
			return
		}
		if err := v.writeStream(bw2); err != nil {
			cs.Fail("stream-writer-error", M{"kind": kindNames[v.K], "sink": "bytes"}, desc(i))
			return
		}
		if cs.R.Intn(7) == 0 {
			dw.Flush()
		}
		if cs.R.Intn(9) == 0 {
			// a bytes writer flushed more than once: the target keeps everything flushed so far
			yw.Flush()
		}
	}
	if err := dw.Flush(); err != nil {
		cs.Fail("stream-writer-error", M{"op": "flush"}, nil)
		return
	}
	yw.Flush()
	zw.Flush()
	bw.Recycle()
	bw2.Recycle()
	bw3.Recycle()
	if !bytes.Equal(zw.Out, stream) {
		cs.Fail("stream-writer-bytes", M{"sink": "zero-copy writer"}, M{"message": fmt.Sprintf("a bufiox.Writer that keeps WriteBinary payloads by reference until Flush received %d bytes, reference %d; first difference at %d", len(zw.Out), len(stream), firstDiff(zw.Out, stream))})
		return
	}
	if got := sink.All(); !bytes.Equal(got, stream) {
		d := firstDiff(got, stream)
		k := 0
		for k+1 < len(offs) && offs[k+1] <= d {
			k++
		}
		m := desc(k)
		m["message"] = fmt.Sprintf("stream writer emitted %d bytes, reference %d; first difference at %d", len(got), len(stream), d)
		cs.Fail("stream-writer-bytes", M{"kind": kindNames[vals[k].K]}, m)
		return
	}
	if full := append(append([]byte(nil), prefix...), stream...); !bytes.Equal(target, full) {
		cs.Fail("stream-writer-bytes", M{"sink": "bytes-writer"}, M{"initial_target_bytes": len(prefix), "message": fmt.Sprintf("bytes writer target holds %d bytes, want the %d it held before + the reference encoding %d; first difference at %d", len(target), len(prefix), len(stream), firstDiff(target, full))})
		return
	}
	if len(prefix) > 0 {
		cs.C.Obs("bytes-writer targets with initial contents", 1)
	}
	// buffer reader at running offsets (input in the guard-page arena)
	in := place(stream, 0)
	for i, v := range vals {
		end := len(stream)
		l, mm := v.readBuf(in[offs[i]:end])
		want := len(stream) - offs[i]
		if i+1 < len(vals) {
			want = offs[i+1] - offs[i]
		}
		if mm != "" || l != want {
			m := desc(i)
			m["message"] = fmt.Sprintf("buffer reader: %s; consumed %d, want %d", mm, l, want)
			cs.Fail("buffer-reader", M{"kind": kindNames[v.K]}, m)
			return
		}
	}
	// stream reader under fragmentation: over the buffered reader on a hostile source, over a bytes
	// reader, and over a foreign bufiox.Reader implementation
	for kind := 0; kind < 3; kind++ {
		var rd bufiox.Reader
		var src *doubles.Source
		switch kind {
		case 0:
			src = &doubles.Source{Data: stream, Len: len(stream), ErrAt: len(stream), Err: io.EOF, Sched: sched, WithData: withData, ZeroMax: 2, R: cs.R, Budget: 10*len(stream) + 100000}
			rd = bufiox.NewDefaultReader(src)
		case 1:
			rd = bufiox.NewBytesReader(stream)
		default:
			rd = &doubles.NBReader{B: stream}
		}
		br := thrift.NewBufferReader(rd)
		for i, v := range vals {
			before := br.Readn()
			mm := v.readStream(br)
			want := len(stream) - offs[i]
			if i+1 < len(vals) {
				want = offs[i+1] - offs[i]
			}
			if mm != "" || int(br.Readn()-before) != want {
				m := desc(i)
				m["reader_kind"] = []string{"DefaultReader", "BytesReader", "foreign bufiox.Reader"}[kind]
				m["message"] = fmt.Sprintf("stream reader: %s; consumed %d, want %d", mm, br.Readn()-before, want)
				cs.Fail("stream-reader", M{"kind": kindNames[v.K]}, m)
				br.Recycle()
				return
			}
			if cs.R.Intn(9) == 0 {
				rd.Release(nil)
			}
		}
		if src != nil && src.EndReads > 0 && !(withData && src.EndReads == 0) {
			// every byte of the values had been delivered and decoded, yet the reader asked its source for
			// more: on a live connection that is a read that blocks until the peer sends something else
			cs.Fail("stream-reader-demands-more-than-the-value", nil, M{"reads_after_all_data_was_delivered": src.EndReads, "schedule": doubles.SchedNames[sched], "message": "decoding the values made the reader call Read after the source had delivered all of their bytes"})
			br.Recycle()
			return
		}
		// past the end: the source's error must surface (shared with C17)
		if _, err := br.ReadByte(); err == nil || !errors.Is(err, io.EOF) {
			cs.Fail("stream-reader-eof", nil, M{"reader_kind": kind, "message": fmt.Sprintf("reading past the end returned %v, want an error matching io.EOF", err)})
		}
		rd.Release(nil)
		br.Recycle()
	}
	cs.C.Obs("values round-tripped", int64(len(vals)))
	cs.C.Obs("stream bytes compared", int64(len(stream)))
}

func monC01(c *drv.Ctx) {
	// (1) exhaustive bool / i8 / i16 (each value through every writer and reader)
	// the type tags a caller passes to the header writers are the numbers Thrift assigns (TType)
	c.Stage("wire-constants", 1, true, func(cs *drv.Case) {
		got := map[string]int8{"STOP": thrift.STOP, "VOID": thrift.VOID, "BOOL": thrift.BOOL, "BYTE": thrift.BYTE, "I08": thrift.I08, "DOUBLE": thrift.DOUBLE, "I16": thrift.I16,
			"I32": thrift.I32, "I64": thrift.I64, "STRING": thrift.STRING, "UTF7": thrift.UTF7, "STRUCT": thrift.STRUCT, "MAP": thrift.MAP, "SET": thrift.SET, "LIST": thrift.LIST,
			"UTF8": thrift.UTF8, "UTF16": thrift.UTF16}
		want := map[string]int8{"STOP": 0, "VOID": 1, "BOOL": 2, "BYTE": 3, "I08": 3, "DOUBLE": 4, "I16": 6, "I32": 8, "I64": 10, "STRING": 11, "UTF7": 11, "STRUCT": 12, "MAP": 13,
			"SET": 14, "LIST": 15, "UTF8": 16, "UTF16": 17}
		for k, w := range want {
			if got[k] != w {
				cs.Fail("type-tag-constant", M{"name": k}, M{"got": got[k], "thrift_defines": w})
			}
		}
		cs.Count(true, "constants")
	})
	c.Stage("exhaustive-small-scalars", 2+256+65536/256, true, func(cs *drv.Case) {
		var vals []cval
		switch {
		case cs.Idx < 2:
			vals = []cval{{K: kBool, B: cs.Idx == 1}}
		case cs.Idx < 258:
			vals = []cval{{K: kByte, I: int64(int8(cs.Idx - 2))}}
		default:
			hi := cs.Idx - 258
			for lo := int64(0); lo < 256; lo++ {
				vals = append(vals, cval{K: kI16, I: int64(int16(hi<<8 | lo))})
			}
		}
		c01Sequence(cs, vals, int(cs.Idx%doubles.NSched), cs.Idx%2 == 0)
		cs.Count(false)
	})

	// (2) random sequences of all kinds
	c.Stage("sequences", c.Pick(150000, 2000000), false, func(cs *drv.Case) {
		r := cs.R
		n := 1 + r.Intn(40)
		vals := make([]cval, n)
		kinds := map[int]bool{}
		bigStr := false
		for i := range vals {
			vals[i] = genCval(r, r.Intn(10) == 0)
			kinds[vals[i].K] = true
			if len(vals[i].S) > 4000 {
				bigStr = true
			}
		}
		sched := r.Intn(doubles.NSched)
		withData := r.Intn(2) == 0
		s := ""
		for i, v := range vals {
			if i < 12 {
				s += v.String() + " "
			}
		}
		cs.Desc = M{"values": s, "n": n, "schedule": doubles.SchedNames[sched], "eof_with_data": withData}
		c01Sequence(cs, vals, sched, withData)
		cs.Count(len(kinds) >= 2 || bigStr || sched != doubles.SchedHuge, fmt.Sprint(vals), sched, withData)
		if cs.WantSample() && n <= 6 && cs.Idx%311 == 1 {
			cs.Sample(cs.Desc)
		}
	})

	// (3) string / binary lengths: boundary set (quick) or every length 0..9000 (thorough)
	nLen := int64(len(gen.StringLens))
	if c.Thorough() {
		nLen = 9001 + int64(len(gen.StringLens))
	}
	c.Stage("string-lengths", nLen, true, func(cs *drv.Case) {
		var l int
		if c.Thorough() && cs.Idx <= 9000 {
			l = int(cs.Idx)
		} else if c.Thorough() {
			l = gen.StringLens[cs.Idx-9001]
		} else {
			l = gen.StringLens[cs.Idx]
		}
		s := gen.Bytes(cs.R, l)
		vals := []cval{{K: kI32, I: 7}, {K: kString, S: s}, {K: kByte, I: 1}, {K: kBinary, S: s}, {K: kString, S: s}, {K: kI64, I: -2}}
		for sched := 0; sched < doubles.NSched; sched++ {
			cs.Desc = M{"string_len": l, "schedule": doubles.SchedNames[sched]}
			c01Sequence(cs, vals, sched, sched%2 == 0)
		}
		cs.Count(l >= 4000, "strlen", l)
		cs.C.Obs("string-length cases", 1)
	})

	// (4) thorough only: all 2^32 i32 values, 2^16 per case
	if c.Thorough() && c.Flavour == "plain" {
		c.Stage("all-i32", 1<<16, true, func(cs *drv.Case) {
			hi := uint32(cs.Idx) << 16
			x := thrift.Binary
			var blk [4]byte
			sink := &doubles.Sink{}
			dw := bufiox.NewDefaultWriter(sink)
			bw := thrift.NewBufferWriter(dw)
			refBlock := make([]byte, 0, 4<<16)
			for lo := uint32(0); lo < 1<<16; lo++ {
				v := int32(hi | lo)
				w := [4]byte{byte(uint32(v) >> 24), byte(uint32(v) >> 16), byte(uint32(v) >> 8), byte(uint32(v))}
				n := x.WriteI32(blk[:], v)
				ap := x.AppendI32(nil, v)
				g, l, err := x.ReadI32(w[:])
				if n != 4 || blk != w || len(ap) != 4 || !bytes.Equal(ap, w[:]) || err != nil || l != 4 || g != v {
					cs.Fail("i32-exhaustive", nil, M{"value": v, "inplace": hexOf(blk[:]), "append": hexOf(ap), "read": g, "l": l, "err": errString(err)})
					return
				}
				bw.WriteI32(v)
				refBlock = append(refBlock, w[:]...)
			}
			dw.Flush()
			bw.Recycle()
			if !bytes.Equal(sink.All(), refBlock) {
				cs.Fail("i32-exhaustive-stream-writer", nil, M{"hi": hi, "first_diff": firstDiff(sink.All(), refBlock)})
				return
			}
			rd := bufiox.NewDefaultReader(&doubles.Source{Data: refBlock, Len: len(refBlock), ErrAt: len(refBlock), Err: io.EOF, Sched: doubles.SchedRandom, R: cs.R, Budget: 1 << 30})
			br := thrift.NewBufferReader(rd)
			for lo := uint32(0); lo < 1<<16; lo++ {
				g, err := br.ReadI32()
				if err != nil || g != int32(hi|lo) {
					cs.Fail("i32-exhaustive-stream-reader", nil, M{"value": int32(hi | lo), "got": g, "err": errString(err)})
					break
				}
				if lo&0xfff == 0 {
					rd.Release(nil)
				}
			}
			rd.Release(nil)
			br.Recycle()
			cs.C.Obs("i32 values covered", 1<<16)
			cs.Count(false)
		})
	}
}
