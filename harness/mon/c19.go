package mon

import (
	"bytes"
	"context"
	"errors"
	"fmt"
	"io"
	"math"
	"sync"

	"github.com/cloudwego/gopkg/bufiox"
	"github.com/cloudwego/gopkg/protocol/thrift/apache"

	"verifharness/drv"
	"verifharness/gen"
)

func init() { drv.Register("C19", monC19) }

type readable struct {
	bytes.Buffer
	n int
}

func (r *readable) ReadableLen() int { return r.n }

type plainRW struct{ bytes.Buffer }

// fullTransport is a wrapped object that happens to have the whole TTransport method set itself
// (e.g. a connection type) and also exposes ReadableLen.
type fullTransport struct {
	bytes.Buffer
	readable int
	own      uint64
}

func (f *fullTransport) ReadableLen() int              { return f.readable }
func (f *fullTransport) RemainingBytes() uint64        { return f.own }
func (f *fullTransport) Flush(_ context.Context) error { return nil }
func (f *fullTransport) Open() error                   { return nil }
func (f *fullTransport) IsOpen() bool                  { return true }
func (f *fullTransport) Close() error                  { return nil }

// scripted reports a scripted sequence of readable lengths (a connection buffer that another
// goroutine drains between two looks); after the script it keeps returning the last value.
type scripted struct {
	bytes.Buffer
	seq   []int
	calls int
}

func (s *scripted) ReadableLen() int {
	i := s.calls
	s.calls++
	if i >= len(s.seq) {
		i = len(s.seq) - 1
	}
	return s.seq[i]
}

// neighbours places two buffers side by side with live data directly after them, so that a
// write past the end of the first buffer's struct becomes visible.
type neighbours struct {
	in   bytes.Buffer
	out  bytes.Buffer
	seq  uint64
	tail [4]uint64
}

type c19Holder struct{ tr apache.TTransport }

var c19Sink *c19Holder

//go:noinline
func c19Grow(n int) int {
	var pad [512]byte
	pad[n%len(pad)] = byte(n)
	if n == 0 {
		return int(pad[0])
	}
	return c19Grow(n-1) + int(pad[n%len(pad)])
}

// c19LocalBuffer creates the transport over a bytes.Buffer that is a LOCAL variable (if the library does
// not make it escape it lives on this goroutine's stack), parks the transport in a heap object, makes the
// stack grow (move) and then compares the two handles.
//
//go:noinline
func c19LocalBuffer(depth int, h *c19Holder) (diffs []string) {
	var buf bytes.Buffer
	h.tr = apache.NewBufferTransport(&buf)
	buf.WriteString("abc")
	if h.tr.RemainingBytes() != uint64(buf.Len()) {
		diffs = append(diffs, fmt.Sprintf("before the deep call: RemainingBytes %d, buffer Len %d", h.tr.RemainingBytes(), buf.Len()))
	}
	c19Grow(depth)
	buf.WriteString("defg")
	if h.tr.RemainingBytes() != uint64(buf.Len()) {
		diffs = append(diffs, fmt.Sprintf("after a deep call and Write through the buffer: RemainingBytes %d, buffer Len %d", h.tr.RemainingBytes(), buf.Len()))
	}
	h.tr.Write([]byte("hi"))
	if buf.String() != "abcdefghi" {
		diffs = append(diffs, fmt.Sprintf("after Write through the transport the buffer holds %q, want %q", buf.String(), "abcdefghi"))
	}
	p := make([]byte, 4)
	n, _ := h.tr.Read(p)
	if n != 4 || string(p) != "abcd" || buf.Len() != 5 {
		diffs = append(diffs, fmt.Sprintf("Read through the transport gave %q, buffer Len now %d (want \"abcd\", 5)", p[:n], buf.Len()))
	}
	buf.Reset()
	if h.tr.RemainingBytes() != 0 {
		diffs = append(diffs, fmt.Sprintf("after buffer.Reset: RemainingBytes %d", h.tr.RemainingBytes()))
	}
	h.tr = nil
	return diffs
}

func monC19(c *drv.Ctx) {
	// buffers grown to several MiB and then closed / reset: empty afterwards, and usable again
	c.Stage("large-buffer-close", 6, true, func(cs *drv.Case) {
		size := []int{1 << 20, 4<<20 + 1, 9 << 20}[cs.Idx%3]
		var buf bytes.Buffer
		tr := apache.NewBufferTransport(&buf)
		chunk := bytes.Repeat([]byte{0x61}, 1<<16)
		for buf.Len() < size {
			tr.Write(chunk)
		}
		cs.Desc = M{"bytes_written": buf.Len(), "via": []string{"Close", "buffer.Reset"}[cs.Idx/3]}
		if cs.Idx/3 == 0 {
			tr.Close()
		} else {
			buf.Reset()
		}
		if buf.Len() != 0 || tr.RemainingBytes() != 0 {
			cs.Fail("buffer-transport-diverges", M{"after": cs.Desc["via"], "size": ">1MiB"}, M{"len": buf.Len(), "remaining": tr.RemainingBytes(), "message": "a large buffer is not empty after Close/Reset"})
			return
		}
		tr.Write([]byte("abc"))
		p := make([]byte, 8)
		n, _ := tr.Read(p)
		if n != 3 || string(p[:3]) != "abc" || buf.Len() != 0 {
			cs.Fail("buffer-transport-diverges", M{"after": cs.Desc["via"], "size": ">1MiB", "what": "reuse"}, M{"read": string(p[:n]), "len": buf.Len()})
		}
		cs.Count(true, "large", cs.Idx)
		cs.C.Obs("large buffers closed", 1)
	})

	// a transport over a buffer that is a local variable of the caller, kept in a heap object while the
	// caller's stack grows: the transport IS that buffer wherever the runtime moves it
	c.Stage("local-buffer-stack-growth", 64, true, func(cs *drv.Case) {
		depth := 8 + int(cs.Idx)*6
		h := &c19Holder{}
		c19Sink = h
		done := make(chan []string, 1)
		go func() { done <- c19LocalBuffer(depth, h) }()
		diffs := <-done
		c19Sink = nil
		cs.Desc = M{"frames_of_512_bytes": depth}
		if len(diffs) > 0 {
			cs.Fail("transport-detached-from-buffer", M{"placement": "local variable, stack grown"}, M{"differences": diffs, "frames": depth})
		}
		cs.Count(true, "local", cs.Idx)
		cs.C.Obs("local-buffer transports across stack growth", 1)
	})
	// (1) buffer transport == the buffer: random histories through either handle
	c.Stage("buffer-histories", c.Pick(60000, 1500000), false, func(cs *drv.Case) {
		r := cs.R
		nb := &neighbours{seq: 0x1122334455667788, tail: [4]uint64{1, 2, 3, 4}}
		buf := &nb.in
		if r.Intn(2) == 0 {
			buf = &nb.out
		}
		other := &nb.out
		if buf == &nb.out {
			other = &nb.in
		}
		other.WriteString("neighbour-data")
		var tr apache.TTransport
		if r.Intn(2) == 0 {
			tr = apache.NewBufferTransport(buf)
		} else {
			tr = apache.NewDefaultTransport(buf)
		}
		var model bytes.Buffer
		n := 2 + r.Intn(30)
		hist := ""
		handles := map[int]bool{}
		fail := func(i int, msg string, a ...interface{}) {
			cs.Fail("buffer-transport-diverges", nil, M{"history": hist, "step": i, "message": fmt.Sprintf(msg, a...)})
		}
		for i := 0; i < n; i++ {
			h := r.Intn(2) // 0: through the transport, 1: through the *bytes.Buffer
			handles[h] = true
			switch op := r.Intn(9); op {
			case 0, 1, 2: // write
				p := gen.Bytes(r, r.Intn(40))
				if r.Intn(20) == 0 {
					p = gen.Bytes(r, 5000)
				}
				hist += fmt.Sprintf("W%d(%d) ", h, len(p))
				var wn int
				var err error
				if h == 0 {
					wn, err = tr.Write(p)
				} else {
					wn, err = buf.Write(p)
				}
				model.Write(p)
				if wn != len(p) || err != nil {
					fail(i, "Write = (%d, %v)", wn, err)
					return
				}
			case 3, 4: // read
				k := r.Intn(50)
				hist += fmt.Sprintf("R%d(%d) ", h, k)
				p1 := make([]byte, k)
				p2 := make([]byte, k)
				var rn int
				var err error
				if h == 0 {
					rn, err = tr.Read(p1)
				} else {
					rn, err = buf.Read(p1)
				}
				mn, merr := model.Read(p2)
				if rn != mn || !bytes.Equal(p1[:rn], p2[:mn]) || (err == nil) != (merr == nil) || (err != nil && err != io.EOF) {
					fail(i, "Read = (%d, %v), model (%d, %v)", rn, err, mn, merr)
					return
				}
			case 5: // reset / close
				if h == 0 {
					hist += "Close "
					if err := tr.Close(); err != nil {
						fail(i, "Close = %v", err)
						return
					}
				} else {
					hist += "Reset "
					buf.Reset()
				}
				model.Reset()
			case 6: // truncate via the buffer handle
				if model.Len() > 0 {
					k := r.Intn(model.Len() + 1)
					hist += fmt.Sprintf("T(%d) ", k)
					buf.Truncate(k)
					model.Truncate(k)
				}
			case 7: // misc no-ops
				hist += "misc "
				if !tr.IsOpen() || tr.Open() != nil || tr.Flush(context.Background()) != nil {
					fail(i, "IsOpen/Open/Flush misbehave")
					return
				}
			default: // readbyte via buffer
				hist += "RB "
				b1, e1 := buf.ReadByte()
				b2, e2 := model.ReadByte()
				if b1 != b2 || (e1 == nil) != (e2 == nil) {
					fail(i, "ReadByte = (%d, %v), model (%d, %v)", b1, e1, b2, e2)
					return
				}
			}
			if tr.RemainingBytes() != uint64(model.Len()) || buf.Len() != model.Len() {
				fail(i, "RemainingBytes %d, buffer Len %d, model %d", tr.RemainingBytes(), buf.Len(), model.Len())
				return
			}
			if !bytes.Equal(buf.Bytes(), model.Bytes()) {
				fail(i, "buffer contents differ from the model")
				return
			}
			// memory next to the buffer must be untouched
			if nb.seq != 0x1122334455667788 || nb.tail != [4]uint64{1, 2, 3, 4} || other.String() != "neighbour-data" {
				cs.Fail("buffer-transport-corrupts-neighbours", nil, M{"history": hist, "step": i, "seq": fmt.Sprintf("%#x", nb.seq), "other": other.String(), "message": "memory adjacent to the wrapped bytes.Buffer changed"})
				return
			}
		}
		if tr.Close() != nil || buf.Len() != 0 || tr.RemainingBytes() != 0 {
			cs.Fail("close-does-not-empty", nil, M{"history": hist, "len": buf.Len()})
			return
		}
		if nb.seq != 0x1122334455667788 || other.String() != "neighbour-data" {
			cs.Fail("buffer-transport-corrupts-neighbours", nil, M{"history": hist, "message": "memory adjacent to the wrapped bytes.Buffer changed after Close"})
			return
		}
		cs.Desc = M{"history": hist}
		cs.Count(len(handles) == 2, hist)
		cs.C.Obs("buffer histories", 1)
		if cs.WantSample() && n < 10 && cs.Idx%301 == 1 {
			cs.Sample(cs.Desc)
		}
	})

	// (1b) two buffer transports alive at the same time, closed and re-created in between: each stays
	// bound to its own buffer
	c.Stage("overlapping-transports", c.Pick(3000, 100000), false, func(cs *drv.Case) {
		r := cs.R
		bufs := []*bytes.Buffer{{}, {}, {}}
		models := []*bytes.Buffer{{}, {}, {}}
		trs := make([]apache.TTransport, 3)
		for k := range trs {
			trs[k] = apache.NewBufferTransport(bufs[k])
		}
		hist := ""
		for i := 0; i < 4+r.Intn(20); i++ {
			k := r.Intn(3)
			switch r.Intn(5) {
			case 0, 1:
				p := []byte(fmt.Sprintf("t%d-%d;", k, i))
				trs[k].Write(p)
				models[k].Write(p)
				hist += fmt.Sprintf("W%d ", k)
			case 2:
				trs[k].Close()
				models[k].Reset()
				hist += fmt.Sprintf("C%d ", k)
				if r.Intn(2) == 0 {
					trs[k].Close() // closing twice is harmless
					hist += fmt.Sprintf("C%d ", k)
				}
			case 3:
				// a new transport over another buffer is created while the others stay in use
				j := (k + 1) % 3
				trs[j] = apache.NewBufferTransport(bufs[j])
				hist += fmt.Sprintf("N%d ", j)
			default:
				p1, p2 := make([]byte, 5), make([]byte, 5)
				n1, _ := trs[k].Read(p1)
				n2, _ := models[k].Read(p2)
				hist += fmt.Sprintf("R%d ", k)
				if n1 != n2 || !bytes.Equal(p1[:n1], p2[:n2]) {
					cs.Fail("buffer-transport-diverges", M{"stage": "overlapping"}, M{"history": hist, "message": "Read through a transport returned other bytes than its own buffer holds"})
					return
				}
			}
			for q := range bufs {
				if !bytes.Equal(bufs[q].Bytes(), models[q].Bytes()) || trs[q].RemainingBytes() != uint64(models[q].Len()) {
					cs.Fail("buffer-transport-diverges", M{"stage": "overlapping"}, M{"history": hist, "transport": q, "buffer": bufs[q].String(), "model": models[q].String(), "remaining": trs[q].RemainingBytes(), "message": "a transport is no longer (only) its own buffer"})
					return
				}
			}
		}
		cs.Desc = M{"history": hist}
		cs.Count(true, hist)
		cs.C.Obs("buffer histories", 1)
	})

	// (2) generic transport: RemainingBytes
	vals := []int{math.MinInt, math.MinInt + 1, -1 << 40, -65536, -3, -2, -1, 0, 1, 2, 255, 65536, 1 << 40, math.MaxInt - 1, math.MaxInt}
	c.Stage("generic-remaining-bytes", int64(len(vals))+2, true, func(cs *drv.Case) {
		if int(cs.Idx) < len(vals) {
			v := vals[cs.Idx]
			// the same through an object that itself looks like a transport: the wrapped object's
			// readable length decides, not a RemainingBytes method it may happen to have
			ft := apache.NewDefaultTransport(&fullTransport{readable: v, own: 12345})
			wantFT := ^uint64(0)
			if v > 0 {
				wantFT = uint64(v)
			}
			if got := ft.RemainingBytes(); got != wantFT {
				cs.Fail("generic-remaining-bytes", M{"positive": v > 0, "wrapped": "transport-shaped"}, M{"readable_len": v, "got": got, "want": wantFT})
			}
			tr := apache.NewDefaultTransport(&readable{n: v})
			want := ^uint64(0)
			if v > 0 {
				want = uint64(v)
			}
			if got := tr.RemainingBytes(); got != want {
				cs.Fail("generic-remaining-bytes", M{"positive": v > 0}, M{"readable_len": v, "got": got, "want": want})
			}
			if _, isBuf := tr.(interface{ Truncate(int) }); isBuf {
				cs.Fail("generic-transport-kind", nil, M{"message": "a non-bytes.Buffer ReadWriter was treated as a buffer"})
			}
		} else if cs.Idx == int64(len(vals)) {
			tr := apache.NewDefaultTransport(&plainRW{})
			if got := tr.RemainingBytes(); got != ^uint64(0) {
				cs.Fail("generic-remaining-bytes", M{"positive": false, "no_readable_len": true}, M{"got": got})
			}
			tr.Write([]byte("abc"))
			p := make([]byte, 3)
			n, _ := tr.Read(p)
			if n != 3 || string(p) != "abc" || tr.Close() != nil || !tr.IsOpen() || tr.Open() != nil || tr.Flush(context.Background()) != nil {
				cs.Fail("generic-transport-passthrough", nil, nil)
			}
		} else {
			b := &bytes.Buffer{}
			b.WriteString("xyz")
			tr := apache.NewDefaultTransport(b)
			if tr.RemainingBytes() != 3 {
				cs.Fail("default-transport-of-buffer", nil, M{"remaining": tr.RemainingBytes()})
			}
			// a buffer transport handed to NewDefaultTransport again is a generic object without a
			// readable length: unknown
			if again := apache.NewDefaultTransport(apache.NewBufferTransport(&bytes.Buffer{})); again.RemainingBytes() != ^uint64(0) {
				if _, isSame := again.(interface{ Truncate(int) }); !isSame {
					cs.Fail("generic-remaining-bytes", M{"wrapped": "buffer-transport"}, M{"got": again.RemainingBytes()})
				}
			}
			b.WriteString("12")
			if tr.RemainingBytes() != 5 {
				cs.Fail("default-transport-of-buffer", nil, M{"remaining": tr.RemainingBytes(), "message": "writes through the buffer are not visible through NewDefaultTransport(*bytes.Buffer)"})
			}
		}
		cs.Count(true, "generic", cs.Idx)
		cs.C.Obs("generic transport cases", 1)
	})

	// (2b) a readable length that changes between looks: the answer must be "unknown" or a positive
	// length the object actually reported during the call - never zero, never a wrapped negative
	scripts := [][]int{{5, 0}, {7, -1}, {1, 2}, {3, 0, 9}, {0, 4}, {-1, 6}, {2, -5, 8}, {9, 9}, {4, 0, 0}, {6, -1, -1}}
	c.Stage("changing-readable-len", int64(len(scripts)), true, func(cs *drv.Case) {
		sc := &scripted{seq: scripts[cs.Idx]}
		tr := apache.NewDefaultTransport(sc)
		got := tr.RemainingBytes()
		ok := got == ^uint64(0)
		for i := 0; i < sc.calls && i < len(sc.seq); i++ {
			if sc.seq[i] > 0 && got == uint64(sc.seq[i]) {
				ok = true
			}
		}
		if !ok {
			cs.Fail("generic-remaining-bytes", M{"changing": true}, M{"script": fmt.Sprint(scripts[cs.Idx]), "calls": sc.calls, "got": got, "message": "RemainingBytes is neither 'unknown' nor a positive length the object reported"})
		}
		cs.Count(true, "script", cs.Idx)
		cs.C.Obs("generic transport cases", 1)
	})

	// (2c) the three registrations are independent: registering them from three goroutines at once
	// must leave all three in effect
	c.Stage("concurrent-registration", c.Pick(3, 12), false, func(cs *drv.Case) {
		defer func() {
			apache.RegisterCheckTStruct(nil)
			apache.RegisterThriftRead(nil)
			apache.RegisterThriftWrite(nil)
		}()
		rd := bufiox.NewBytesReader([]byte("x"))
		var tgt []byte
		wr := bufiox.NewBytesWriter(&tgt)
		rounds := 3000
		if c.Slow() {
			rounds = 500
		}
		for round := 0; round < rounds; round++ {
			apache.RegisterCheckTStruct(nil)
			apache.RegisterThriftRead(nil)
			apache.RegisterThriftWrite(nil)
			var wg sync.WaitGroup
			start := make(chan struct{})
			wg.Add(3)
			go func() { defer wg.Done(); <-start; apache.RegisterCheckTStruct(func(interface{}) error { return nil }) }()
			go func() {
				defer wg.Done()
				<-start
				apache.RegisterThriftRead(func(bufiox.Reader, interface{}) error { return nil })
			}()
			go func() {
				defer wg.Done()
				<-start
				apache.RegisterThriftWrite(func(bufiox.Writer, interface{}) error { return nil })
			}()
			close(start)
			wg.Wait()
			e1, e2, e3 := apache.CheckTStruct(1), apache.ThriftRead(rd, 1), apache.ThriftWrite(wr, 1)
			if e1 != nil || e2 != nil || e3 != nil {
				cs.Fail("registration-lost", nil, M{"round": round, "errors": fmt.Sprint(e1, " | ", e2, " | ", e3), "message": "after three concurrent Register* calls returned, a callback is still reported as not registered"})
				return
			}
		}
		cs.Count(true, "conc-reg", cs.Idx)
		cs.C.Obs("concurrent registration rounds", int64(rounds))
	})

	// (3) callbacks pass through; unregistered -> specific error
	c.Stage("callbacks", c.Pick(200, 5000), false, func(cs *drv.Case) {
		r := cs.R
		defer func() {
			apache.RegisterCheckTStruct(nil)
			apache.RegisterThriftRead(nil)
			apache.RegisterThriftWrite(nil)
		}()
		apache.RegisterCheckTStruct(nil)
		apache.RegisterThriftRead(nil)
		apache.RegisterThriftWrite(nil)
		rd := bufiox.NewBytesReader([]byte("x"))
		var tgt []byte
		wr := bufiox.NewBytesWriter(&tgt)
		v := &struct{ A int }{r.Intn(100)}
		e1, e2, e3 := apache.CheckTStruct(v), apache.ThriftRead(rd, v), apache.ThriftWrite(wr, v)
		if e1 == nil || e2 == nil || e3 == nil {
			cs.Fail("unregistered-callback", nil, M{"errors": fmt.Sprint(e1, e2, e3), "message": "an unregistered callback did not yield an error"})
			return
		}
		if e1 == e2 || e2 == e3 || e1 == e3 {
			cs.Fail("unregistered-callback", M{"what": "not-specific"}, M{"errors": fmt.Sprint(e1, e2, e3), "message": "the three unregistered-callback errors are not specific"})
			return
		}
		res := []error{nil, errors.New("cb-error-" + fmt.Sprint(r.Intn(1000))), io.EOF}[r.Intn(3)]
		var gotV, gotV2, gotV3 interface{}
		var gotR bufiox.Reader
		var gotW bufiox.Writer
		apache.RegisterCheckTStruct(func(x interface{}) error { gotV = x; return res })
		apache.RegisterThriftRead(func(rr bufiox.Reader, x interface{}) error { gotR, gotV2 = rr, x; return res })
		apache.RegisterThriftWrite(func(ww bufiox.Writer, x interface{}) error { gotW, gotV3 = ww, x; return res })
		r1, r2, r3 := apache.CheckTStruct(v), apache.ThriftRead(rd, v), apache.ThriftWrite(wr, v)
		if r1 != res || r2 != res || r3 != res {
			cs.Fail("callback-result", nil, M{"want": fmt.Sprint(res), "got": fmt.Sprint(r1, r2, r3)})
			return
		}
		if gotV != interface{}(v) || gotV2 != interface{}(v) || gotV3 != interface{}(v) || gotR != bufiox.Reader(rd) || gotW != bufiox.Writer(wr) {
			cs.Fail("callback-arguments", nil, M{"message": "a registered callback did not receive exactly the arguments given"})
			return
		}
		// "exactly the arguments given" includes absent ones: a nil reader / writer / value is handed through as it is
		gotR, gotW, gotV2, gotV3 = rd, wr, 1, 1
		r4, r5 := apache.ThriftRead(nil, nil), apache.ThriftWrite(nil, nil)
		if r4 != res || r5 != res || gotR != nil || gotW != nil || gotV2 != nil || gotV3 != nil {
			cs.Fail("callback-arguments", M{"arguments": "nil"}, M{"message": "a registered callback called with a nil reader / writer / value did not receive exactly those", "results": fmt.Sprint(r4, r5)})
			return
		}
		// re-registration replaces; nil unregisters again
		apache.RegisterThriftRead(nil)
		if apache.ThriftRead(rd, v) != e2 && apache.ThriftRead(rd, v) == nil {
			cs.Fail("unregistered-callback", M{"what": "after-unregister"}, nil)
		}
		cs.Count(true, "cb", cs.Idx)
		cs.C.Obs("callback cases", 1)
	})
}
