package mon

import (
	"errors"
	"fmt"
	"math/rand"

	"github.com/cloudwego/gopkg/protocol/thrift"

	"verifharness/drv"
	"verifharness/gen"
)

func init() { drv.Register("C18", monC18) }

const (
	ekPlain = iota
	ekWrapf
	ekTransport
	ekApplication
	ekForeign
	ekForeignEmbed
	ekProtocol
	ekProtoWrap
	nEK
)

var ekNames = []string{"plain", "wrapf", "transport", "application", "foreign", "foreign-embedding", "protocol", "protocol-wrapping"}

// aggErr is a plain error whose dynamic type is not comparable (nor hashable).
type aggErr []string

func (e aggErr) Error() string { return "agg" + fmt.Sprint([]string(e)) }

// sameErr is == on error values that never panics (false for non-comparable dynamic types).
func sameErr(a, b error) (eq bool) {
	defer func() {
		if recover() != nil {
			eq = false
		}
	}()
	return a == b
}

type foreignExc struct {
	id  int32
	msg string
}

func (e *foreignExc) Error() string { return e.msg }
func (e *foreignExc) TypeId() int32 { return e.id }

// foreignFmt is a foreign exception that also formats itself (fmt.Formatter): what %v prints is not its Error() text,
// and the text of an error is its Error() text.
type foreignFmt struct{ foreignExc }

func (e *foreignFmt) Format(f fmt.State, verb rune) {
	fmt.Fprintf(f, "ForeignFmt(type=%d,%c)", e.id, verb)
}

type foreignEmbed struct {
	*thrift.ApplicationException
	extra int
}

// foreign exception types that embed a library exception (by pointer or by value) but answer TypeId() and
// Error() themselves: for the helpers they are foreign exceptions with the OUTER id and text
type foreignEmbedT struct {
	*thrift.TransportException
	id  int32
	msg string
}

func (e *foreignEmbedT) Error() string { return e.msg }
func (e *foreignEmbedT) TypeId() int32 { return e.id }

type foreignEmbedP struct {
	*thrift.ProtocolException
	id  int32
	msg string
}

func (e *foreignEmbedP) Error() string { return e.msg }
func (e *foreignEmbedP) TypeId() int32 { return e.id }

type foreignEmbedAV struct {
	thrift.ApplicationException // by value
	id                          int32
	msg                         string
}

func (e *foreignEmbedAV) Error() string { return e.msg }
func (e *foreignEmbedAV) TypeId() int32 { return e.id }

// enode is the model's view of an error term.
type enode struct {
	kind  int
	err   error
	inner *enode // wrapf: wrapped term; protocol-wrapping: cause
}

func (n *enode) exposesTypeID() bool {
	switch n.kind {
	case ekTransport, ekApplication, ekForeign, ekForeignEmbed, ekProtocol, ekProtoWrap:
		return true
	}
	return false
}

func (n *enode) typeID() int32 {
	return n.err.(interface{ TypeId() int32 }).TypeId()
}

// exception kind class for PrependError: 0 plain, 1 transport, 2 protocol, 3 application
func (n *enode) prependClass() int {
	switch n.kind {
	case ekTransport:
		return 1
	case ekProtocol, ekProtoWrap:
		return 2
	case ekApplication, ekForeign, ekForeignEmbed:
		return 3
	}
	return 0
}

func (n *enode) describe() string {
	s := ekNames[n.kind]
	if n.exposesTypeID() {
		s += fmt.Sprintf("(id %d, text %.30q)", n.typeID(), n.err.Error())
	} else {
		s += fmt.Sprintf("(%.30q)", n.err.Error())
	}
	if n.inner != nil {
		s += " <- " + n.inner.describe()
	}
	return s
}

var c18IDs = []int32{0, 1, 2, 3, 4, 5, 6, 7, 8, 9, 10, 11, -1, 100, 1 << 30, -1 << 31}

func c18Text(r *rand.Rand) string {
	switch r.Intn(5) {
	case 0:
		return ""
	case 1:
		return "negative size" // collides with a library message
	}
	return string(gen.Bytes(r, 1+r.Intn(12)))
}

// genTerm builds a random error term of bounded depth together with its model node.
func genTerm(cs *drv.Case, depth int) *enode {
	r := cs.R
	k := r.Intn(nEK)
	if depth <= 0 && (k == ekWrapf || k == ekProtoWrap) {
		k = r.Intn(2) * ekProtocol // plain or protocol
	}
	id := c18IDs[r.Intn(len(c18IDs))]
	if r.Intn(4) == 0 {
		id = gen.I32(r)
	}
	txt := c18Text(r)
	switch k {
	case ekPlain:
		if r.Intn(5) == 0 {
			return &enode{kind: ekPlain, err: aggErr{txt, "x"}}
		}
		return &enode{kind: ekPlain, err: errors.New(txt)}
	case ekWrapf:
		in := genTerm(cs, depth-1)
		return &enode{kind: ekWrapf, err: fmt.Errorf("ctx %s: %w", txt, in.err), inner: in}
	case ekTransport:
		return &enode{kind: ekTransport, err: thrift.NewTransportException(id, txt)}
	case ekApplication:
		return &enode{kind: ekApplication, err: thrift.NewApplicationException(id, txt)}
	case ekForeign:
		switch cs.R.Intn(6) {
		case 0:
			return &enode{kind: ekForeign, err: &foreignEmbedT{thrift.NewTransportException(id+1, "inner "+txt), id, txt}}
		case 1:
			return &enode{kind: ekForeign, err: &foreignEmbedP{thrift.NewProtocolException(id+2, "inner "+txt), id, txt}}
		case 2:
			return &enode{kind: ekForeign, err: &foreignEmbedAV{*thrift.NewApplicationException(id+3, "inner "+txt), id, txt}}
		}
		if cs.R.Intn(5) == 0 {
			return &enode{kind: ekForeign, err: &foreignFmt{foreignExc{id, txt}}}
		}
		return &enode{kind: ekForeign, err: &foreignExc{id, txt}}
	case ekForeignEmbed:
		return &enode{kind: ekForeignEmbed, err: &foreignEmbed{thrift.NewApplicationException(id, txt), 1}}
	case ekProtocol:
		return &enode{kind: ekProtocol, err: thrift.NewProtocolException(id, txt)}
	}
	// protocol exception wrapping a cause
	in := genTerm(cs, depth-1)
	pe := thrift.NewProtocolExceptionWithErr(in.err)
	if in.kind == ekProtocol || in.kind == ekProtoWrap {
		// identity on errors that already are protocol exceptions
		if !sameErr(pe, in.err) {
			cs.Fail("wrap-not-identity", nil, M{"term": in.describe(), "message": "NewProtocolExceptionWithErr did not return the protocol exception it was given"})
		}
		return in
	}
	n := &enode{kind: ekProtoWrap, err: pe, inner: in}
	// cause reachable
	if !sameErr(errors.Unwrap(pe), in.err) && !(in.kind == ekPlain && fmt.Sprint(errors.Unwrap(pe)) == fmt.Sprint(in.err) && !isComparable(in.err)) {
		cs.Fail("wrap-unwrap", M{"cause_kind": ekNames[in.kind]}, M{"term": in.describe(), "message": fmt.Sprintf("errors.Unwrap(wrapper) = %v, want the wrapped error itself", errors.Unwrap(pe))})
	}
	if isComparable(in.err) && !errors.Is(pe, in.err) {
		cs.Fail("wrap-is-cause", M{"cause_kind": ekNames[in.kind]}, M{"term": in.describe(), "message": "errors.Is(wrapper, cause) is false"})
	}
	if !isComparable(in.err) {
		// errors.Is cannot match a non-comparable value; it must not panic, and errors.As must reach it
		_ = errors.Is(pe, in.err)
		var got aggErr
		if !errors.As(pe, &got) {
			cs.Fail("wrap-as-cause", M{"cause_kind": "non-comparable"}, M{"term": in.describe(), "message": "errors.As does not reach the wrapped cause"})
		}
	}
	cs.C.Obs("wrappers built", 1)
	return n
}

// modelIs is the statement's definition of errors.Is for terms.
func modelIs(e, x *enode) bool {
	if e == nil {
		return false
	}
	if sameErr(e.err, x.err) {
		return true
	}
	switch e.kind {
	case ekProtocol, ekProtoWrap:
		pe := e.err.(*thrift.ProtocolException)
		if x.exposesTypeID() && x.typeID() == pe.TypeId() && x.err.Error() == pe.Msg() {
			return true
		}
		return modelIs(e.inner, x)
	case ekWrapf:
		return modelIs(e.inner, x)
	}
	return false
}

func isComparable(e error) bool {
	defer func() { recover() }()
	return e == e
}

func hasProtocolOnChain(e *enode) bool {
	for ; e != nil; e = e.inner {
		if e.kind == ekProtocol || e.kind == ekProtoWrap {
			return true
		}
	}
	return false
}

func c18Prepend(cs *drv.Case, t *enode, prefix string) {
	res := thrift.PrependError(prefix, t.err)
	wantText := prefix + t.err.Error()
	sig := func() M { return M{"kind": ekNames[t.kind]} }
	detail := func(msg string) M {
		return M{"term": t.describe(), "prefix": prefix, "result_type": fmt.Sprintf("%T", res), "result_text": res.Error(), "want_text": wantText, "message": msg}
	}
	gotClass := 0
	switch res.(type) {
	case *thrift.TransportException:
		gotClass = 1
	case *thrift.ProtocolException:
		gotClass = 2
	case *thrift.ApplicationException:
		gotClass = 3
	default:
		if _, ok := res.(interface{ TypeId() int32 }); ok {
			gotClass = 4
		}
	}
	if gotClass != t.prependClass() {
		cs.Fail("prepend-kind", sig(), detail(fmt.Sprintf("exception kind class %d, want %d", gotClass, t.prependClass())))
		return
	}
	if t.exposesTypeID() {
		if id := res.(interface{ TypeId() int32 }).TypeId(); id != t.typeID() {
			cs.Fail("prepend-typeid", sig(), detail(fmt.Sprintf("type id %d, want %d", id, t.typeID())))
			return
		}
	}
	if res.Error() != wantText {
		s := sig()
		s["check_detail"] = "prepend-text"
		s["prefix_empty"] = prefix == ""
		s["text_empty"] = t.err.Error() == ""
		s["foreign"] = t.kind == ekForeign || t.kind == ekForeignEmbed
		cs.Fail("prepend-text", s, detail("error text is not prefix + original text"))
		return
	}
	cs.C.Obs("prepend cases", 1)
}

func monC18(c *drv.Ctx) {
	// (1) PrependError over random terms and prefixes
	c.Stage("prepend", c.Pick(600000, 10000000), false, func(cs *drv.Case) {
		t := genTerm(cs, 2)
		prefix := ""
		if cs.R.Intn(4) > 0 {
			prefix = string(gen.Bytes(cs.R, 1+cs.R.Intn(10))) + ": "
		}
		if cs.R.Intn(6) == 0 {
			prefix = []string{"100% of retries failed: ", "%", "%%", "%s: ", "%w", "a%!b", "{}%v\\n"}[cs.R.Intn(7)]
		}
		cs.Desc = M{"term": t.describe(), "prefix": prefix}
		c18Prepend(cs, t, prefix)
		cs.Count(true, t.describe(), prefix)
		if cs.WantSample() && cs.Idx%5003 == 1 {
			cs.Sample(cs.Desc)
		}
	})
	// (2) exhaustive small grid: kind x id x {empty, non-empty} text x {empty, non-empty} prefix
	c.Stage("prepend-grid", int64(6*len(c18IDs)*4), true, func(cs *drv.Case) {
		i := cs.Idx
		kind := []int{ekPlain, ekTransport, ekApplication, ekForeign, ekForeignEmbed, ekProtocol}[i%6]
		id := c18IDs[(i/6)%int64(len(c18IDs))]
		txt := []string{"", "boom"}[(i/int64(6*len(c18IDs)))%2]
		prefix := []string{"", "ctx: "}[i/int64(12*len(c18IDs))]
		var n *enode
		switch kind {
		case ekPlain:
			n = &enode{kind: kind, err: errors.New(txt)}
		case ekTransport:
			n = &enode{kind: kind, err: thrift.NewTransportException(id, txt)}
		case ekApplication:
			n = &enode{kind: kind, err: thrift.NewApplicationException(id, txt)}
		case ekForeign:
			n = &enode{kind: kind, err: &foreignExc{id, txt}}
		case ekForeignEmbed:
			n = &enode{kind: kind, err: &foreignEmbed{thrift.NewApplicationException(id, txt), 0}}
		default:
			n = &enode{kind: kind, err: thrift.NewProtocolException(id, txt)}
		}
		cs.Desc = M{"term": n.describe(), "prefix": prefix}
		c18Prepend(cs, n, prefix)
		cs.Count(true, "grid", i)
	})
	// (2b) a library exception that is prepended, then refilled through its exported FastRead (a pooled
	// exception object used again), then prepended once more with the same prefix: the second result
	// describes what the object holds now
	c.Stage("prepend-after-refill", c.Pick(3000, 100000), false, func(cs *drv.Case) {
		r := cs.R
		id1, id2 := c18IDs[r.Intn(len(c18IDs))], c18IDs[r.Intn(len(c18IDs))]
		t1, t2 := "first "+string(gen.Bytes(r, r.Intn(8))), "second "+string(gen.Bytes(r, r.Intn(8)))
		prefix := []string{"", "ctx: ", "%s "}[r.Intn(3)]
		type refillable interface {
			error
			TypeId() int32
			FastRead([]byte) (int, error)
		}
		var e refillable
		kind := cs.Idx % 3
		switch kind {
		case 0:
			e = thrift.NewApplicationException(id1, t1)
		case 1:
			e = thrift.NewTransportException(id1, t1)
		default:
			e = thrift.NewProtocolException(id1, t1)
		}
		check := func(when string) bool {
			res := thrift.PrependError(prefix, e)
			ti, ok := res.(interface{ TypeId() int32 })
			if !ok || ti.TypeId() != e.TypeId() || res.Error() != prefix+e.Error() {
				cs.Fail("prepend-stale", M{"kind": []string{"application", "transport", "protocol"}[kind], "when": when}, M{"prefix": prefix, "source_type_id": e.TypeId(), "source_text": e.Error(),
					"result_text": res.Error(), "message": "PrependError does not describe what the exception object holds " + when})
				return false
			}
			return true
		}
		if !check("at the first call") {
			return
		}
		src := thrift.NewApplicationException(id2, t2)
		buf := make([]byte, src.BLength())
		src.FastWrite(buf)
		if _, err := e.FastRead(buf); err != nil {
			cs.Fail("harness-self-check", M{"what": "refill"}, M{"err": errString(err)})
			return
		}
		check("after the object was refilled by FastRead")
		cs.Count(true, "refill", cs.Idx)
		cs.C.Obs("prepend after refill", 1)
	})

	// (3) errors.Is over all ordered pairs of a pool of terms
	c.Stage("is-pairs", c.Pick(30000, 500000), false, func(cs *drv.Case) {
		r := cs.R
		n := 4 + r.Intn(6)
		pool := make([]*enode, 0, n+4)
		for i := 0; i < n; i++ {
			pool = append(pool, genTerm(cs, 2))
		}
		// add look-alikes: same type id and text as a protocol exception of the pool, in every kind
		for _, e := range append([]*enode(nil), pool...) {
			if pe, ok := e.err.(*thrift.ProtocolException); ok && r.Intn(2) == 0 {
				pool = append(pool, &enode{kind: ekApplication, err: thrift.NewApplicationException(pe.TypeId(), pe.Msg())})
				pool = append(pool, &enode{kind: ekForeign, err: &foreignExc{pe.TypeId(), pe.Msg()}})
				pool = append(pool, &enode{kind: ekProtocol, err: thrift.NewProtocolException(pe.TypeId()+1, pe.Msg())})
				pool = append(pool, &enode{kind: ekTransport, err: thrift.NewTransportException(pe.TypeId(), pe.Msg()+"x")})
			}
			if e.kind == ekProtoWrap && e.inner != nil {
				// a target whose own chain wraps the same cause (must NOT match: Is is not symmetric)
				pool = append(pool, &enode{kind: ekWrapf, err: fmt.Errorf("outer: %w", e.inner.err), inner: e.inner})
				// and a second protocol wrapper around the same cause (matches only via type id + text or the cause)
				pool = append(pool, &enode{kind: ekProtoWrap, err: thrift.NewProtocolExceptionWithErr(e.inner.err), inner: e.inner})
			}
			// inner nodes are targets too
			for in := e.inner; in != nil; in = in.inner {
				pool = append(pool, in)
			}
		}
		pairs := 0
		type msger interface{ Msg() string }
		type ider interface{ TypeId() int32 }
		for pass := 0; pass < 2; pass++ {
			for _, e := range pool {
				if !hasProtocolOnChain(e) {
					continue
				}
				for _, x := range pool {
					got := errors.Is(e.err, x.err)
					want := modelIs(e, x)
					pairs++
					if got != want {
						cs.Fail("errors-is", M{"receiver": ekNames[e.kind], "target": ekNames[x.kind], "got": got, "after_error_text_was_taken": pass == 1}, M{"receiver": e.describe(), "target": x.describe(), "message": fmt.Sprintf("errors.Is = %v, the statement gives %v", got, want)})
						return
					}
					if want {
						cs.C.Obs("is-pairs matching", 1)
					}
				}
			}
			if pass == 0 {
				// taking the text of an error (logging it) must not change what it is: same type id, same
				// message, same matches afterwards
				for _, e := range pool {
					var id0 int32
					var m0 string
					ie, hasID := e.err.(ider)
					me, hasMsg := e.err.(msger)
					if hasID {
						id0 = ie.TypeId()
					}
					if hasMsg {
						m0 = me.Msg()
					}
					t1 := e.err.Error()
					t2 := e.err.Error() // (the second time; not through fmt: a foreign error may format itself differently)
					if t1 != t2 || (hasID && ie.TypeId() != id0) || (hasMsg && me.Msg() != m0) {
						cs.Fail("error-text-not-pure", M{"kind": ekNames[e.kind]}, M{"term": e.describe(), "first": t1, "second": t2, "msg_before": m0, "message": "Error() changed the exception (type id, message or its own result)"})
						return
					}
				}
				cs.C.Obs("error texts taken between two Is passes", int64(len(pool)))
			}
		}
		cs.C.Obs("is-pairs compared", int64(pairs))
		cs.Count(true, "is", cs.Idx)
	})
}
