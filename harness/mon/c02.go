package mon

import (
	"bytes"
	"fmt"
	"io"
	"runtime"

	"github.com/cloudwego/gopkg/bufiox"
	"github.com/cloudwego/gopkg/protocol/thrift"

	"verifharness/doubles"
	"verifharness/drv"
	"verifharness/gen"
	"verifharness/ref"
	"verifharness/san"
)

func init() { drv.Register("C02", monC02) }

// c02Stream checks several well-formed values back-to-back on ONE decoder instance of each
// stream-backed skipper, followed by trailing bytes, under one fragmentation schedule.
func c02Stream(cs *drv.Case, vals []ref.Value, encs [][]byte, trail []byte, sched int, withData bool) {
	var stream []byte
	for _, e := range encs {
		stream = append(stream, e...)
	}
	valuesEnd := len(stream)
	stream = append(stream, trail...)
	mk := func(zero int) *doubles.Source {
		return &doubles.Source{Data: stream, Len: len(stream), ErrAt: len(stream), Err: io.EOF, Sched: sched, R: cs.R, WithData: withData, ZeroMax: zero, Budget: 10*len(stream) + 100000, Trace: cs.Tracef}
	}
	fail := func(check, skipper string, k int, msg string) {
		cs.Fail(check, M{"skipper": skipper}, M{"value_index": k, "message": msg, "sched": doubles.SchedNames[sched], "eof_with_data": withData})
	}

	// (1) ReaderSkipDecoder over the plain io.Reader: must not read ahead
	func() {
		src := mk(cs.R.Intn(3))
		if cs.R.Intn(6) == 0 && len(stream) < 3000 {
			src.ZeroRun = 1 + cs.R.Intn(3) // many empty reads inside one value, with progress in between
			src.Budget += src.ZeroRun * (len(stream) + 100)
		}
		if len(stream) > 1<<20 && sched == doubles.SchedHuge {
			// few, huge reads: let the reader churn every size class up to 8 MiB
			src.Churn = func() { san.PoolChurn(8 << 20) }
		}
		if len(stream) <= 3000 && sched != doubles.SchedOne && cs.R.Intn(2) == 0 {
			// the reader itself uses the shared pool for scratch space while the decoder is mid-value
			src.Churn = func() { san.PoolChurn(8192) }
			cs.C.Obs("pool-churning reader cases", 1)
		}
		if cs.R.Intn(4) == 0 {
			// the last bytes of the last value arrive together with an error (any error, not only io.EOF: a limit
			// reader, a reset right behind the last segment): the value was delivered completely all the same
			src.ErrAt, src.WithData = valuesEnd, true
			src.Err = []error{io.EOF, doubles.ErrCustom, io.ErrUnexpectedEOF, doubles.ErrTimeout}[cs.R.Intn(4)]
			cs.C.Obs("values whose last bytes came with an error", 1)
		}
		d := thrift.NewReaderSkipDecoder(src)
		defer d.Release()
		pos := 0
		for k, e := range encs {
			out, err := d.Next(thrift.TType(vals[k].T))
			if err != nil {
				fail("skip-rejected-wellformed", "ReaderSkipDecoder", k, fmt.Sprintf("Next failed: %v", err))
				return
			}
			if !bytes.Equal(out, e) {
				fail("skip-wrong-bytes", "ReaderSkipDecoder", k, fmt.Sprintf("returned %d bytes, want %d (content equal: %v)", len(out), len(e), bytes.Equal(out, e)))
				return
			}
			pos += len(e)
			if src.Pos != pos {
				fail("skip-source-position", "ReaderSkipDecoder", k, fmt.Sprintf("source handed out %d bytes after values totalling %d", src.Pos, pos))
				return
			}
		}
		cs.C.Obs("reader-skip-decoder values", int64(len(encs)))
		if src.ErrDelivered {
			cs.C.Obs("eof delivered during value", 1)
		}
		if src.EndReads > 0 {
			fail("skip-demands-more-than-the-value", "ReaderSkipDecoder", len(encs), fmt.Sprintf("%d Read calls after the source had delivered every byte of the values", src.EndReads))
		}
	}()

	// (2) SkipDecoder over DefaultReader over Source
	func() {
		src := mk(2)
		dr := bufiox.NewDefaultReader(src)
		d := thrift.NewSkipDecoder(dr)
		defer d.Release()
		pos := 0
		var held [][]byte
		for k, e := range encs {
			out, err := d.Next(thrift.TType(vals[k].T))
			if err != nil {
				fail("skip-rejected-wellformed", "SkipDecoder/DefaultReader", k, fmt.Sprintf("Next failed: %v", err))
				return
			}
			if !bytes.Equal(out, e) {
				fail("skip-wrong-bytes", "SkipDecoder/DefaultReader", k, fmt.Sprintf("returned %d bytes, want %d", len(out), len(e)))
				return
			}
			held = append(held, out)
			pos += len(e)
			if dr.ReadLen() != pos {
				fail("skip-readlen", "SkipDecoder/DefaultReader", k, fmt.Sprintf("ReadLen %d after values totalling %d", dr.ReadLen(), pos))
				return
			}
		}
		// retained results must still hold their bytes just before Release (shared with C09)
		for k := range held {
			if !bytes.Equal(held[k], encs[k]) {
				fail("skip-retained-result-changed", "SkipDecoder/DefaultReader", k, "bytes of an earlier result changed before Release")
				return
			}
		}
		if src.EndReads > 0 {
			fail("skip-demands-more-than-the-value", "SkipDecoder/DefaultReader", len(encs), fmt.Sprintf("%d Read calls after the source had delivered every byte of the values (would block on a live connection)", src.EndReads))
			return
		}
		tr, err := dr.Next(len(trail))
		if err != nil || !bytes.Equal(tr, trail) {
			fail("skip-trailing-bytes", "SkipDecoder/DefaultReader", len(encs), fmt.Sprintf("trailing bytes not delivered intact: err=%v", err))
		}
		dr.Release(nil)
	}()

	// (3) BufferReader.Skip over DefaultReader over Source
	func() {
		src := mk(2)
		dr := bufiox.NewDefaultReader(src)
		br := thrift.NewBufferReader(dr)
		defer br.Recycle()
		pos := 0
		for k, e := range encs {
			if err := br.Skip(thrift.TType(vals[k].T)); err != nil {
				fail("skip-rejected-wellformed", "BufferReader.Skip/DefaultReader", k, fmt.Sprintf("Skip failed: %v", err))
				return
			}
			pos += len(e)
			if dr.ReadLen() != pos || br.Readn() != int64(pos) {
				fail("skip-readlen", "BufferReader.Skip/DefaultReader", k, fmt.Sprintf("ReadLen %d / Readn %d after values totalling %d", dr.ReadLen(), br.Readn(), pos))
				return
			}
		}
		if src.EndReads > 0 {
			fail("skip-demands-more-than-the-value", "BufferReader.Skip/DefaultReader", len(encs), fmt.Sprintf("%d Read calls after the source had delivered every byte of the values", src.EndReads))
			return
		}
		tr, err := dr.Next(len(trail))
		if err != nil || !bytes.Equal(tr, trail) {
			fail("skip-trailing-bytes", "BufferReader.Skip/DefaultReader", len(encs), fmt.Sprintf("trailing bytes not delivered intact: err=%v", err))
		}
		dr.Release(nil)
	}()

	// (4) slice based: Binary.Skip at running offsets, BytesSkipDecoder consecutive, NB readers
	in := place(stream, 0)
	func() {
		off := 0
		d := thrift.NewBytesSkipDecoder(in)
		defer d.Release()
		nb := &doubles.NBReader{B: in}
		sd := thrift.NewSkipDecoder(nb)
		defer sd.Release()
		nb2 := &doubles.NBReader{B: in}
		br := thrift.NewBufferReader(nb2)
		defer br.Recycle()
		for k, e := range encs {
			tt := thrift.TType(vals[k].T)
			n, err := thrift.Binary.Skip(in[off:], tt)
			if err != nil || n != len(e) {
				fail("skip-wrong-extent", "Binary.Skip", k, fmt.Sprintf("got (%d, %v), want %d", n, err, len(e)))
				return
			}
			out, err := d.Next(tt)
			if err != nil || !bytes.Equal(out, e) {
				fail("skip-wrong-bytes", "BytesSkipDecoder", k, fmt.Sprintf("got %d bytes err=%v, want %d", len(out), err, len(e)))
				return
			}
			out, err = sd.Next(tt)
			if err != nil || !bytes.Equal(out, e) || nb.RI != off+len(e) {
				fail("skip-wrong-bytes", "SkipDecoder/NB", k, fmt.Sprintf("got %d bytes err=%v pos=%d, want %d pos=%d", len(out), err, nb.RI, len(e), off+len(e)))
				return
			}
			if err := br.Skip(tt); err != nil || nb2.RI != off+len(e) {
				fail("skip-wrong-extent", "BufferReader.Skip/NB", k, fmt.Sprintf("err=%v pos=%d want %d", err, nb2.RI, off+len(e)))
				return
			}
			off += len(e)
		}
		_ = valuesEnd
	}()
}

func monC02(c *drv.Ctx) {
	types := ref.KnownTypes
	// (1) random trees, several values per stream
	c.Stage("trees", c.Pick(100000, 2000000), false, func(cs *drv.Case) {
		r := cs.R
		if cs.Idx%256 == 0 {
			// drop the pooled decoders/readers (sync.Pool is emptied by two GC cycles): later cases start
			// from fresh instances whose internal buffers have to grow again
			runtime.GC()
			runtime.GC()
			cs.C.Obs("pool flushes (fresh pooled objects)", 1)
		}
		if r.Intn(4) == 0 {
			polluteCodecPools(cs)
		}
		if r.Intn(8) == 0 {
			// the exported SkipN of a decoder fresh from the pool starts at the reader's position
			data := gen.Bytes(r, 16+r.Intn(40))
			nb := &doubles.NBReader{B: data}
			d := thrift.NewSkipDecoder(nb)
			b1, e1 := d.SkipN(4)
			b2, e2 := d.SkipN(3)
			d.Release()
			if e1 != nil || e2 != nil || !bytes.Equal(b1, data[:4]) || !bytes.Equal(b2, data[4:7]) {
				cs.Fail("skipn-on-fresh-decoder", M{"skipper": "SkipDecoder.SkipN"}, M{"message": fmt.Sprintf("SkipN(4), SkipN(3) on a decoder obtained from the pool returned %x (%v), %x (%v); want %x, %x", b1, e1, b2, e2, data[:4], data[4:7])})
				return
			}
			bd := thrift.NewBytesSkipDecoder(data)
			b3, e3 := bd.SkipN(5)
			bd.Release()
			if e3 != nil || !bytes.Equal(b3, data[:5]) {
				cs.Fail("skipn-on-fresh-decoder", M{"skipper": "BytesSkipDecoder.SkipN"}, M{"message": fmt.Sprintf("SkipN(5) returned %x (%v), want %x", b3, e3, data[:5])})
				return
			}
		}
		nv := 1 + r.Intn(3)
		var vals []ref.Value
		var encs [][]byte
		nontrivial := false
		shape := ""
		for i := 0; i < nv; i++ {
			t := types[r.Intn(len(types))]
			o := gen.TreeOpts{MaxDepth: 1 + r.Intn(4), MaxElems: 5, BigStrings: r.Intn(6) == 0}
			v := gen.Tree(r, t, o, 0)
			e := v.Encode(nil)
			if len(e) != v.Len() {
				cs.Fail("harness-self-check", M{"what": "ref.Len != len(ref.Encode)"}, nil)
				return
			}
			vals = append(vals, v)
			encs = append(encs, e)
			if v.Nesting() >= 2 || len(e) > 4096 || (v.Nesting() == 1 && len(e) > 20) {
				nontrivial = true
			}
			shape += fmt.Sprintf("%d/%d/%d;", t, v.Nesting(), len(e))
		}
		trail := make([]byte, r.Intn(65))
		r.Read(trail)
		sched := r.Intn(doubles.NSched)
		withData := r.Intn(2) == 0
		if withData && r.Intn(2) == 0 {
			trail = nil // the last value ends exactly at the stream end, delivered with io.EOF
		}
		if cs.WantSample() && nontrivial {
			cs.Sample(M{"values": shape, "first_value_hex": hexOf(encs[0]), "trailing": len(trail), "schedule": doubles.SchedNames[sched], "eof_with_data": withData})
		}
		cs.Desc = M{"values(type/nesting/len)": shape, "value_hex": hexOf(encs[0]), "trailing": len(trail), "schedule": doubles.SchedNames[sched], "eof_with_data": withData}
		c02Stream(cs, vals, encs, trail, sched, withData)
		cs.Count(nontrivial, shape, encs, len(trail), sched, withData)
		cs.C.Obs("values skipped", int64(nv))
	})

	// (2) grid: every container kind x key type x value type x size class
	sizes := []int{0, 1, 2, 7}
	c.Stage("type-grid", int64(11*11*len(sizes)*3), true, func(cs *drv.Case) {
		i := cs.Idx
		kt := types[i%11]
		vt := types[(i/11)%11]
		n := sizes[(i/121)%int64(len(sizes))]
		kind := []byte{ref.MAP, ref.LIST, ref.SET}[i/int64(121*len(sizes))]
		if kind != ref.MAP && kt != types[0] {
			// lists/sets have no key type: run the combination once per element type only
			return
		}
		o := gen.TreeOpts{MaxDepth: 2, MaxElems: 3, BigStrings: i%5 == 0}
		v := gen.TreeOfCombo(cs.R, kind, kt, vt, n, o)
		e := v.Encode(nil)
		for sched := 0; sched < doubles.NSched; sched++ {
			for _, wd := range []bool{false, true} {
				cs.Desc = M{"kind": kind, "kt": kt, "vt": vt, "n": n, "value_hex": hexOf(e), "schedule": doubles.SchedNames[sched], "eof_with_data": wd}
				var trail []byte
				if !wd {
					trail = []byte{0xde, 0xad, 0x0c}
				}
				c02Stream(cs, []ref.Value{v}, [][]byte{e}, trail, sched, wd)
			}
		}
		cs.Count(n >= 2, kind, kt, vt, n)
		cs.C.Obs("grid combinations", 1)
	})

	// (3) nesting 1..63 for every container kind (well inside the agreed range)
	c.Stage("nesting<=63", 63*4*3, true, func(cs *drv.Case) {
		i := cs.Idx
		depth := int(i%63) + 1
		kind := []byte{ref.STRUCT, ref.MAP, ref.SET, ref.LIST}[(i/63)%4]
		inner := int(i / 252)
		b := gen.Nested(kind, depth, inner)
		v := ref.Value{T: kind}
		for _, sched := range []int{doubles.SchedOne, doubles.SchedHuge, doubles.SchedMixed} {
			cs.Desc = M{"kind": kind, "depth": depth, "inner": inner, "value_hex": hexOf(b), "schedule": doubles.SchedNames[sched]}
			c02Stream(cs, []ref.Value{v, v}, [][]byte{b, b}, []byte{1, 2, 3}, sched, false)
			c02Stream(cs, []ref.Value{v}, [][]byte{b}, nil, sched, true)
		}
		cs.Count(depth >= 2, kind, depth, inner)
		cs.C.ObsMax("max_nesting_skipped", int64(depth))
	})

	// (3b) nesting 1..63 entered through every position (field, element, map key, map value)
	c.Stage("nesting-paths<=63", int64(len(gen.NestPaths))*63, true, func(cs *drv.Case) {
		depth := int(cs.Idx%63) + 1
		path := gen.NestPaths[cs.Idx/63]
		b, top := gen.NestedPath(path, depth, cs.Idx%2 == 0)
		v := ref.Value{T: top}
		cs.Desc = M{"path": path, "depth": depth, "value_hex": hexOf(b)}
		c02Stream(cs, []ref.Value{v, v}, [][]byte{b, b}, []byte{7}, int(cs.Idx%doubles.NSched), false)
		c02Stream(cs, []ref.Value{v}, [][]byte{b}, nil, doubles.SchedMixed, true)
		cs.Count(depth >= 2, "path", path, depth)
	})

	// (3b') well-formed values in a local array of a goroutine whose stack grows (moves) during the recursion
	c.Stage("stack-resident-value", c.Pick(1200, 12000), false, func(cs *drv.Case) {
		r := cs.R
		pad := int(cs.Idx % 300)
		depth := 10 + r.Intn(54) // 10..63
		var b []byte
		var t byte
		if r.Intn(2) == 0 {
			t = []byte{ref.STRUCT, ref.MAP, ref.SET, ref.LIST}[r.Intn(4)]
			b = gen.Nested(t, depth, r.Intn(3))
		} else {
			b, t = gen.NestedPath(gen.NestPaths[r.Intn(len(gen.NestPaths))], depth, r.Intn(2) == 0)
		}
		trail := r.Intn(8)
		if len(b)+trail > 1024 {
			return
		}
		in := append(append([]byte(nil), b...), gen.Bytes(r, trail)...)
		o := stackSkip(in, t, pad)
		cs.Desc = M{"type": t, "depth": depth, "pad_frames": pad, "trailing": trail, "value_hex": hexOf(b)}
		if o.onStack {
			cs.C.Obs("values on a goroutine stack", 1)
		}
		if o.panic != nil || o.err != nil || o.n != len(b) {
			cs.Fail("skip-wrong-extent", M{"skipper": "Binary.Skip", "placement": "stack"}, M{"type": t, "value_hex": hexOf(b), "trailing": trail, "pad_frames": pad,
				"observed_n": o.n, "observed_err": errString(o.err), "panic": fmt.Sprint(o.panic), "want_n": len(b), "on_stack": o.onStack})
		}
		cs.Count(true, "stack", t, pad, b)
	})

	// (3b'') well-formed values of 2..8 GiB (untouched zero pages) through the skippers that need not buffer them
	if !c.Slow() && (c.Flavour == "plain" || c.Flavour == "go126") {
		var vcs []vcase
		for _, vc := range virtualCases() {
			if vc.size < 0x80000000 {
				vcs = append(vcs, vc)
			}
		}
		c.Stage("values-beyond-2GiB", int64(len(vcs)), true, func(cs *drv.Case) {
			runVirtualCase(cs, vcs[cs.Idx])
		})
	}

	// (3c) multi-megabyte values (beyond 1 MiB and 4 MiB), first on fresh pooled decoders, then again
	c.Stage("huge-values", 12, true, func(cs *drv.Case) {
		size := []int{1<<20 + 5, 3 << 19, 4<<20 + 1, 6 << 20}[cs.Idx%4]
		mode := cs.Idx / 4
		runtime.GC() // two cycles empty sync.Pool: the decoders of this case start without a buffer
		runtime.GC()
		s := ref.Value{T: ref.STRING, S: gen.Bytes(cs.R, size)}
		var v ref.Value
		switch mode {
		case 0:
			v = s
		case 1:
			v = ref.Value{T: ref.STRUCT, Fields: []ref.Field{{ID: 1, V: ref.Value{T: ref.I32, I: 7}}, {ID: 2, V: s}, {ID: 3, V: ref.Value{T: ref.BOOL, Bool: true}}}}
		default:
			elems := make([]ref.Value, size/8)
			for i := range elems {
				elems[i] = ref.Value{T: ref.I64, I: int64(i) * 0x0101010101}
			}
			v = ref.Value{T: ref.LIST, VT: ref.I64, Elems: elems}
		}
		e := v.Encode(nil)
		small := ref.Value{T: ref.STRING, S: []byte("after")}
		se := small.Encode(nil)
		for _, sched := range []int{doubles.SchedHuge, doubles.SchedRandom, doubles.SchedBuf} {
			cs.Desc = M{"value_bytes": len(e), "mode": mode, "schedule": doubles.SchedNames[sched]}
			c02Stream(cs, []ref.Value{v, small, v}, [][]byte{e, se, e}, []byte{1, 2}, sched, false)
			c02Stream(cs, []ref.Value{v}, [][]byte{e}, nil, sched, true)
		}
		c02ReleasedBuffer(cs, v, e)
		cs.Count(true, "huge", size, mode)
		cs.C.Obs("multi-megabyte values", 1)
	})

	// (4) long strings around buffer boundaries, inside containers
	lens := gen.StringLens
	c.Stage("long-strings", int64(len(lens)*4), true, func(cs *drv.Case) {
		l := lens[cs.Idx%int64(len(lens))]
		mode := cs.Idx / int64(len(lens))
		s := ref.Value{T: ref.STRING, S: gen.Bytes(cs.R, l)}
		var v ref.Value
		switch mode {
		case 0:
			v = s
		case 1:
			v = ref.Value{T: ref.LIST, VT: ref.STRING, Elems: []ref.Value{s, {T: ref.STRING, S: []byte("x")}, s}}
		case 2:
			v = ref.Value{T: ref.MAP, KT: ref.STRING, VT: ref.I64, Elems: []ref.Value{s, {T: ref.I64, I: 7}}}
		default:
			v = ref.Value{T: ref.STRUCT, Fields: []ref.Field{{ID: 1, V: s}, {ID: 2, V: ref.Value{T: ref.I32, I: 5}}, {ID: 3, V: s}}}
		}
		e := v.Encode(nil)
		for sched := 0; sched < doubles.NSched; sched++ {
			cs.Desc = M{"strlen": l, "mode": mode, "schedule": doubles.SchedNames[sched], "value_len": len(e)}
			c02Stream(cs, []ref.Value{v, v}, [][]byte{e, e}, []byte{9, 9}, sched, cs.R.Intn(2) == 0)
		}
		cs.Count(true, l, mode)
		cs.C.Obs("long-string cases", 1)
	})

	// (5) a connection's life: many values one after the other on one stream-backed reader, the application
	// releasing the reader after some of them (with read-ahead left over), some values far larger than the buffer
	c.Stage("values-and-releases", c.Pick(1500, 30000), false, func(cs *drv.Case) {
		r := cs.R
		n := 4 + r.Intn(12)
		var vals []ref.Value
		var encs [][]byte
		var stream []byte
		kind := r.Intn(2)
		bad := map[int]bool{}
		for k := 0; k < n; k++ {
			var v ref.Value
			if kind == 0 && r.Intn(7) == 0 {
				// a value the peer garbled (second element with a negative size): the decoder refuses it, the
				// application steps over it (it knows the length from its framing) and goes on with the same decoder
				e := ref.EncString(ref.EncListBegin(nil, ref.STRING, 2), string(gen.Bytes(r, r.Intn(9))))
				e = append(ref.U32(e, 0xfffffff0), gen.Bytes(r, 4)...)
				bad[len(encs)] = true
				vals, encs, stream = append(vals, ref.Value{T: ref.LIST}), append(encs, e), append(stream, e...)
				continue
			}
			switch r.Intn(6) {
			case 0:
				v = ref.Value{T: ref.STRING, S: gen.Bytes(r, []int{17000, 20000, 33000, 70000}[r.Intn(4)])}
			case 1:
				v = ref.Value{T: ref.STRING, S: gen.Bytes(r, 1000+r.Intn(6000))}
			default:
				v = gen.Tree(r, ref.KnownTypes[r.Intn(len(ref.KnownTypes))], gen.TreeOpts{MaxDepth: 3, MaxElems: 5, NoBigCounts: true}, 0)
			}
			e := v.Encode(nil)
			vals, encs, stream = append(vals, v), append(encs, e), append(stream, e...)
		}
		sched := []int{doubles.SchedRandom, doubles.SchedBuf, doubles.SchedHuge, doubles.SchedSmall}[r.Intn(4)]
		if len(stream) > 60000 && sched == doubles.SchedSmall {
			sched = doubles.SchedRandom
		}
		src := &doubles.Source{Data: stream, Len: len(stream), ErrAt: len(stream), Err: io.EOF, Sched: sched, R: r, WithData: r.Intn(2) == 0, Budget: 10*len(stream) + 100000}
		dr := bufiox.NewDefaultReader(src)
		cs.Desc = M{"values": n, "stream_len": len(stream), "schedule": doubles.SchedNames[sched], "skipper": []string{"SkipDecoder/DefaultReader", "BufferReader.Skip/DefaultReader"}[kind]}
		d := thrift.NewSkipDecoder(dr)
		br := thrift.NewBufferReader(dr)
		defer d.Release()
		defer br.Recycle()
		pos, releases := 0, 0
		for k, e := range encs {
			before := dr.ReadLen()
			if bad[k] {
				if _, err := d.Next(thrift.LIST); err == nil {
					cs.Fail("skip-accepted-malformed", M{"skipper": "SkipDecoder/DefaultReader", "history": "values and releases"}, M{"value_index": k, "message": "a list whose second element has a negative size was accepted"})
					return
				}
				if err := dr.Skip(len(e)); err != nil || dr.ReadLen()-before != len(e) {
					cs.Fail("skip-readlen", M{"skipper": "SkipDecoder/DefaultReader", "history": "values and releases"}, M{"value_index": k, "message": fmt.Sprintf("stepping over a refused value of %d bytes: err=%v, consumed %d (the refusal must have consumed nothing)", len(e), err, dr.ReadLen()-before)})
					return
				}
				pos += len(e)
				cs.C.Obs("refused values stepped over between well-formed ones", 1)
				continue
			}
			if kind == 0 {
				out, err := d.Next(thrift.TType(vals[k].T))
				if err != nil {
					cs.Fail("skip-rejected-wellformed", M{"skipper": "SkipDecoder/DefaultReader", "history": "values and releases"}, M{"value_index": k, "releases_so_far": releases, "err": errString(err), "stream_offset": pos})
					return
				}
				if !bytes.Equal(out, e) {
					cs.Fail("skip-wrong-bytes", M{"skipper": "SkipDecoder/DefaultReader", "history": "values and releases"}, M{"value_index": k, "releases_so_far": releases, "stream_offset": pos, "message": fmt.Sprintf("returned %d bytes, want %d (equal prefix %d)", len(out), len(e), firstDiff(out, e))})
					return
				}
			} else if err := br.Skip(thrift.TType(vals[k].T)); err != nil {
				cs.Fail("skip-rejected-wellformed", M{"skipper": "BufferReader.Skip/DefaultReader", "history": "values and releases"}, M{"value_index": k, "releases_so_far": releases, "err": errString(err), "stream_offset": pos})
				return
			}
			if got := dr.ReadLen() - before; got != len(e) {
				cs.Fail("skip-readlen", M{"skipper": cs.Desc["skipper"], "history": "values and releases"}, M{"value_index": k, "releases_so_far": releases, "message": fmt.Sprintf("consumed %d bytes for a value of %d", got, len(e))})
				return
			}
			pos += len(e)
			if r.Intn(2) == 0 {
				dr.Release(nil)
				releases++
			}
		}
		// what follows the last value is the end of the stream, nothing else
		if _, err := dr.Peek(1); err == nil {
			cs.Fail("skip-trailing-bytes", M{"skipper": cs.Desc["skipper"], "history": "values and releases"}, M{"message": "bytes are left on the reader after the last value was consumed"})
			return
		}
		dr.Release(nil)
		cs.Count(releases > 0, "vr", hexOf(stream[:minInt(len(stream), 64)]), n, sched, kind)
		cs.C.Obs("values skipped on one reader across Releases", int64(n))
	})

	// (6) a source that had nothing more to give (io.EOF at a value boundary) and later holds a further value:
	// the decoder over a plain io.Reader consumes that value like any other
	c.Stage("source-refilled-after-eof", c.Pick(1500, 30000), false, func(cs *drv.Case) {
		r := cs.R
		var buf bytes.Buffer
		d := thrift.NewReaderSkipDecoder(&buf)
		defer d.Release()
		rounds := 2 + r.Intn(4)
		for k := 0; k < rounds; k++ {
			if r.Intn(2) == 0 {
				// polled while drained: an error, nothing consumed
				if out, err := d.Next(thrift.STRUCT); err == nil {
					cs.Fail("skip-accepted-malformed", M{"skipper": "ReaderSkipDecoder", "history": "drained source"}, M{"round": k, "message": fmt.Sprintf("Next on a drained source returned %d bytes", len(out))})
					return
				}
			}
			t := ref.KnownTypes[r.Intn(len(ref.KnownTypes))]
			v := gen.Tree(r, t, gen.TreeOpts{MaxDepth: 2, MaxElems: 4, NoBigCounts: true}, 0)
			e := v.Encode(nil)
			buf.Write(e)
			trail := r.Intn(3)
			buf.Write(make([]byte, trail))
			out, err := d.Next(thrift.TType(t))
			if err != nil || !bytes.Equal(out, e) {
				cs.Fail("skip-rejected-wellformed", M{"skipper": "ReaderSkipDecoder", "history": "source refilled after io.EOF"}, M{"round": k, "err": errString(err), "value_hex": hexOf(e), "message": "a complete value written to the source after it had reported io.EOF was not delivered"})
				return
			}
			if buf.Len() != trail {
				cs.Fail("skip-source-position", M{"skipper": "ReaderSkipDecoder", "history": "source refilled after io.EOF"}, M{"round": k, "message": fmt.Sprintf("%d bytes left in the source, want the %d that follow the value", buf.Len(), trail)})
				return
			}
			buf.Next(trail)
		}
		cs.Count(true, "refill", rounds, cs.Idx)
		cs.C.Obs("values delivered after the source had reported io.EOF", int64(rounds))
	})
}

// polluteCodecPools plays "the previous user of the pooled objects": it makes every pooled
// decoder / reader fail half way through a value and releases it, so that whatever state a
// failed call leaves behind is what the next user (the case under test) inherits.
func polluteCodecPools(cs *drv.Case) {
	r := cs.R
	v := gen.Tree(r, ref.STRUCT, gen.TreeOpts{MaxDepth: 2, MaxElems: 4}, 0)
	enc := v.Encode(nil)
	enc = append(enc, 0x0c, 0x0b) // make sure there is something to cut
	cut := 1 + r.Intn(len(enc)-1)
	bad := enc[:cut]
	if r.Intn(2) == 0 {
		bad = append(append([]byte(nil), enc[:cut]...), 0x7f, 0x7f, 0x7f) // unknown type instead of truncation
	}
	func() {
		defer func() { recover() }()
		nb := &doubles.NBReader{B: bad}
		d := thrift.NewSkipDecoder(nb)
		d.Next(thrift.STRUCT)
		d.Release()
		bd := thrift.NewBytesSkipDecoder(bad)
		bd.Next(thrift.STRUCT)
		bd.Release()
		rd := thrift.NewReaderSkipDecoder(bytes.NewReader(bad))
		rd.Next(thrift.STRUCT)
		rd.Release()
		nb2 := &doubles.NBReader{B: bad}
		br := thrift.NewBufferReader(nb2)
		br.Skip(thrift.STRUCT)
		if rest := bad[nb2.RI:]; len(rest) < 4 || (rest[0] == 0 && rest[1] == 0) {
			br.ReadString() // (only when the length that happens to follow is small: ReadString allocates what is declared)
		}
		br.Recycle()
		dr := bufiox.NewDefaultReader(&doubles.Source{Data: bad, Len: len(bad), ErrAt: len(bad), Err: doubles.ErrCustom, Sched: doubles.SchedSmall, R: r, Budget: 100000})
		br2 := thrift.NewBufferReader(dr)
		br2.Skip(thrift.STRUCT)
		br2.Recycle()
		dr.Release(nil)
	}()
	cs.C.Obs("pool pollutions (failed calls by a previous user)", 1)
}

var eeRef []byte

// c02ReleasedBuffer: a decoder that is released after a multi-megabyte value and then taken from the pool
// again must neither return bytes that a later user of the shared buffer pool can overwrite, nor write
// into that user's buffers.
func c02ReleasedBuffer(cs *drv.Case, v ref.Value, e []byte) {
	if eeRef == nil {
		eeRef = bytes.Repeat([]byte{0xEE}, 16<<20)
	}
	small := ref.Value{T: ref.STRING, S: []byte("after-release")}
	se := small.Encode(nil)
	fail := func(check, msg string) {
		cs.Fail(check, M{"skipper": "ReaderSkipDecoder", "history": "release-after-huge-value"}, M{"value_bytes": len(e), "message": msg})
	}
	for rep := 0; rep < 2; rep++ {
		src := &doubles.Source{Data: e, Len: len(e), ErrAt: len(e), Err: io.EOF, Sched: doubles.SchedHuge, R: cs.R, Budget: 10*len(e) + 100000}
		d1 := thrift.NewReaderSkipDecoder(src)
		out, err := d1.Next(thrift.TType(v.T))
		ok := err == nil && bytes.Equal(out, e)
		d1.Release()
		if !ok {
			fail("skip-wrong-bytes", fmt.Sprintf("huge value not returned intact (err=%v)", err))
			return
		}
		// the next decoder from the pool (normally the very same object)
		stream2 := append(append([]byte(nil), se...), e...)
		src2 := &doubles.Source{Data: stream2, Len: len(stream2), ErrAt: len(stream2), Err: io.EOF, Sched: doubles.SchedHuge, R: cs.R, Budget: 10*len(stream2) + 100000}
		d2 := thrift.NewReaderSkipDecoder(src2)
		out2, err2 := d2.Next(thrift.STRING)
		// other users of the shared pool now take buffers of every class the decoder can have used, and fill them
		var tenants [][]byte
		for c := 1 << 20; c <= 16<<20; c *= 2 {
			for k := 0; k < 2; k++ {
				b := san.PoolMalloc(c)
				copy(b, eeRef)
				tenants = append(tenants, b)
			}
		}
		if err2 != nil || !bytes.Equal(out2, se) {
			fail("skip-wrong-bytes", fmt.Sprintf("the value returned by a decoder taken from the pool after a multi-megabyte value changed when other users allocated from the buffer pool (err=%v)", err2))
		}
		out3, err3 := d2.Next(thrift.TType(v.T))
		if err3 != nil || !bytes.Equal(out3, e) {
			fail("skip-wrong-bytes", fmt.Sprintf("second huge value not returned intact (err=%v)", err3))
		}
		for _, b := range tenants {
			if !bytes.Equal(b, eeRef[:len(b)]) {
				fail("skip-writes-foreign-buffer", fmt.Sprintf("a %d-byte buffer another user holds from the pool was written while the decoder read a value", len(b)))
				break
			}
		}
		for _, b := range tenants {
			san.PoolFree(b)
		}
		d2.Release()
		cs.C.Obs("release-after-huge-value histories", 1)
	}
}
