// Package doubles holds hostile test doubles for everything the library calls out to.
package doubles

import (
	"errors"
	"io"
	"math/rand"
	"net"
	"runtime"
	"time"
)

// Content is the position-coded stream content: byte i of every stream.
func Content(i int) byte { return byte((i*131 + (i>>8)*29 + (i>>16)*7 + 17) & 0xff) }

// FillContent fills b with the content of stream positions [pos, pos+len(b)).
func FillContent(b []byte, pos int) {
	for i := range b {
		b[i] = Content(pos + i)
	}
}

// ErrCustom is an error value no library knows.
var ErrCustom = errors.New("doubles: injected source error")

// timeoutErr is a net.Error-like error whose Timeout() and Temporary() report true.
type timeoutErr struct{}

func (timeoutErr) Error() string   { return "doubles: i/o timeout (injected)" }
func (timeoutErr) Timeout() bool   { return true }
func (timeoutErr) Temporary() bool { return true }

// ErrTimeout is an injected timeout-class error.
var ErrTimeout error = timeoutErr{}

// SinkErrors are the error values sinks fail with.
var SinkErrors = []error{ErrCustom, ErrTimeout, io.ErrShortWrite, io.ErrClosedPipe, io.EOF}

// Schedule kinds for Source.
const (
	SchedOne    = iota // 1 byte per Read
	SchedSmall         // 2..7 bytes
	SchedBuf           // exactly 4096
	SchedHuge          // everything the caller's buffer takes
	SchedRandom        // random 1..9000
	SchedMixed         // random mixture incl. zero reads
	NSched
)

var SchedNames = []string{"1byte", "2-7", "4096", "huge", "random", "mixed+zero"}

// Source is a hostile io.Reader over a virtual position-coded stream (or explicit Data).
type Source struct {
	Data     []byte // when non-nil the stream is Data; otherwise Content(i) for i < Len
	Len      int
	ErrAt    int   // stream position at which Err is delivered (normally == Len)
	Err      error // error to deliver (io.EOF by default)
	WithData bool  // deliver the error together with the final chunk
	Sched    int
	ZeroMax  int  // max consecutive (0,nil) reads injected (progress-guaranteeing), 0 = none
	ZeroRun  int  // when > 0: exactly this many (0,nil) reads follow every data chunk
	Endless0 bool // return (0,nil) forever once position reaches ErrAt (no-progress scenario)
	// ZerosBeforeErr: that many (0,nil) reads are made once the data has run out, then the error is delivered
	// (below the 100 consecutive empty reads that count as "no progress": the error is still the source's)
	ZerosBeforeErr int
	// AfterErr, when non-nil, is what every Read returns AFTER Err has been delivered once (a connection that
	// reports a reset with its last chunk and plain EOF afterwards): the first error is the source's error
	AfterErr error
	Yield    bool
	// Churn, when set, is called inside every Read before data is delivered: a hostile reader that
	// itself uses the shared buffer pool (takes, scribbles and returns buffers).
	Churn func()
	R     *rand.Rand

	Pos          int
	Calls        int
	Budget       int // max Read calls; exceeded => Exhausted
	Exhausted    bool
	ErrDelivered bool
	ZeroReads    int
	EndReads     int // Read calls made when every byte had already been delivered
	zeroRun      int
	zeroOwed     int

	zerosBeforeErrDone int
	MaxAsk       int
	Trace        func(format string, a ...interface{})
}

// NewSource builds a position-coded source of n bytes.
func NewSource(n int, sched int, r *rand.Rand) *Source {
	return &Source{Len: n, ErrAt: n, Err: io.EOF, Sched: sched, R: r, Budget: 10*n + 100000}
}

func (s *Source) Read(p []byte) (int, error) {
	s.Calls++
	if s.Yield {
		runtime.Gosched()
	}
	if s.Churn != nil {
		s.Churn()
	}
	if len(p) > s.MaxAsk {
		s.MaxAsk = len(p)
	}
	if s.Calls > s.Budget {
		s.Exhausted = true
		return 0, errors.New("doubles: read budget exhausted (non-termination)")
	}
	limit := s.ErrAt
	if limit > s.Len {
		limit = s.Len
	}
	if s.Pos >= limit {
		s.EndReads++
		if s.Endless0 {
			s.ZeroReads++
			return 0, nil
		}
		if s.ErrDelivered && s.AfterErr != nil {
			return 0, s.AfterErr
		}
		if !s.ErrDelivered && s.zerosBeforeErrDone < s.ZerosBeforeErr {
			s.zerosBeforeErrDone++
			s.ZeroReads++
			return 0, nil
		}
		s.ErrDelivered = true
		if s.Trace != nil {
			s.Trace("src.Read(len %d) -> 0, %v", len(p), s.Err)
		}
		return 0, s.Err
	}
	if len(p) == 0 {
		return 0, nil
	}
	if s.zeroOwed > 0 {
		s.zeroOwed--
		s.ZeroReads++
		return 0, nil
	}
	// zero-read injection
	if s.ZeroMax > 0 && s.zeroRun < s.ZeroMax && s.R.Intn(3) == 0 {
		s.zeroRun++
		s.ZeroReads++
		if s.Trace != nil {
			s.Trace("src.Read(len %d) -> 0, nil", len(p))
		}
		return 0, nil
	}
	s.zeroRun = 0
	var n int
	switch s.Sched {
	case SchedOne:
		n = 1
	case SchedSmall:
		n = 2 + s.R.Intn(6)
	case SchedBuf:
		n = 4096
	case SchedHuge:
		n = len(p)
	case SchedRandom:
		n = 1 + s.R.Intn(9000)
	default:
		switch s.R.Intn(5) {
		case 0:
			n = 1
		case 1:
			n = 1 + s.R.Intn(16)
		case 2:
			n = 4096
		case 3:
			n = len(p)
		default:
			n = 1 + s.R.Intn(9000)
		}
	}
	if n > len(p) {
		n = len(p)
	}
	if n > limit-s.Pos {
		n = limit - s.Pos
	}
	if s.Data != nil {
		copy(p[:n], s.Data[s.Pos:s.Pos+n])
	} else {
		FillContent(p[:n], s.Pos)
	}
	s.Pos += n
	s.zeroOwed = s.ZeroRun
	if s.Pos >= limit && s.WithData && !s.Endless0 {
		s.ErrDelivered = true
		if s.Trace != nil {
			s.Trace("src.Read(len %d) -> %d, %v", len(p), n, s.Err)
		}
		return n, s.Err
	}
	if s.Trace != nil {
		s.Trace("src.Read(len %d) -> %d, nil", len(p), n)
	}
	return n, nil
}

// Sink records every Write separately and can fail at the k-th call.
type Sink struct {
	Writes [][]byte
	FailAt int // 1-based index of the Write call that fails; 0 = never
	Err    error
	Calls  int
	// FailMode selects what the failing Write reports: 0 -> (0, err), 1 -> (len(p), err)
	// (consumed everything, then failed), 2 -> (len(p)/2, err)
	FailMode int
	// FailOnce: only the FailAt-th call fails (a timeout, say); the sink accepts later calls again.
	// A writer whose error sticks never makes one.
	FailOnce bool
	Yield    bool
}

func (s *Sink) Write(p []byte) (int, error) {
	s.Calls++
	if s.Yield {
		runtime.Gosched()
	}
	if s.FailAt > 0 && (s.Calls == s.FailAt || s.Calls > s.FailAt && !s.FailOnce) {
		e := s.Err
		if e == nil {
			e = ErrCustom
		}
		switch s.FailMode {
		case 1:
			return len(p), e
		case 2:
			return len(p) / 2, e
		}
		return 0, e
	}
	s.Writes = append(s.Writes, append([]byte(nil), p...))
	return len(p), nil
}

func (s *Sink) All() []byte {
	var out []byte
	for _, w := range s.Writes {
		out = append(out, w...)
	}
	return out
}

// NBReader is a non-allocating bufiox.Reader over a byte slice: it never buffers, so a
// stream skipper can be handed declared sizes of any magnitude without the harness paying
// for them.
type NBReader struct {
	B  []byte
	RI int
	// Base is the number of bytes released so far (for absolute positions).
	Base int
}

var errNeg = errors.New("doubles: negative count")

func (r *NBReader) Next(n int) ([]byte, error) {
	if n < 0 {
		return nil, errNeg
	}
	if len(r.B)-r.RI < n {
		return nil, io.EOF
	}
	p := r.B[r.RI : r.RI+n : r.RI+n]
	r.RI += n
	return p, nil
}
func (r *NBReader) Peek(n int) ([]byte, error) {
	if n < 0 {
		return nil, errNeg
	}
	if len(r.B)-r.RI < n {
		return nil, io.EOF
	}
	return r.B[r.RI : r.RI+n : r.RI+n], nil
}
func (r *NBReader) Skip(n int) error {
	if n < 0 {
		return errNeg
	}
	if len(r.B)-r.RI < n {
		return io.EOF
	}
	r.RI += n
	return nil
}
func (r *NBReader) ReadLen() int { return r.RI }
func (r *NBReader) ReadBinary(bs []byte) (int, error) {
	m := copy(bs, r.B[r.RI:])
	r.RI += m
	if m < len(bs) {
		return m, io.EOF
	}
	return m, nil
}
func (r *NBReader) Release(e error) error {
	r.B = r.B[r.RI:]
	r.Base += r.RI
	r.RI = 0
	return nil
}

// DirectWriter records nocopy writes and splices independently.
type DirectWriter struct {
	Pieces  [][]byte
	Remains []int
}

func (d *DirectWriter) WriteDirect(b []byte, remainCap int) error {
	d.Pieces = append(d.Pieces, b)
	d.Remains = append(d.Remains, remainCap)
	return nil
}

// Splice rebuilds the byte stream: linear is the buffer handed to the encoder (length L),
// used is the offset the encoder returned. Piece i is inserted at position L - Remains[i]
// of the linear buffer.
func (d *DirectWriter) Splice(linear []byte, used int) ([]byte, bool) {
	out := make([]byte, 0, used)
	start := 0
	for i, p := range d.Pieces {
		end := len(linear) - d.Remains[i]
		if end < start || end > used {
			return nil, false
		}
		out = append(out, linear[start:end]...)
		out = append(out, p...)
		start = end
	}
	if used < start {
		return nil, false
	}
	out = append(out, linear[start:used]...)
	return out, true
}

// LenReader wraps a reader and adds a Len method that does NOT mean "bytes that will ever arrive" (here: the
// bytes staged so far, a small number). Len is not part of io.Reader; nothing may be concluded from it.
type LenReader struct {
	io.Reader
	Staged int
}

func (l *LenReader) Len() int { return l.Staged }

// ConnSink gives a Sink the method set of a net.Conn (and of io.ReaderFrom / io.StringWriter): a writer that
// looks at what ELSE its io.Writer can do must still deliver the same bytes through it.
type ConnSink struct{ *Sink }

func (c ConnSink) Read(p []byte) (int, error)         { return 0, io.EOF }
func (c ConnSink) Close() error                       { return nil }
func (c ConnSink) LocalAddr() net.Addr                { return connAddr{} }
func (c ConnSink) RemoteAddr() net.Addr               { return connAddr{} }
func (c ConnSink) SetDeadline(t time.Time) error      { return nil }
func (c ConnSink) SetReadDeadline(t time.Time) error  { return nil }
func (c ConnSink) SetWriteDeadline(t time.Time) error { return nil }
func (c ConnSink) WriteString(s string) (int, error)  { return c.Sink.Write([]byte(s)) }

type connAddr struct{}

func (connAddr) Network() string { return "sink" }
func (connAddr) String() string  { return "sink" }

// ZCWriter is a contract-abiding bufiox.Writer that is as lazy as the interface allows: every Malloc region is a
// separate block pre-filled with garbage, WriteBinary keeps the caller's slice ("it may be a zero copy write")
// and nothing is looked at before Flush, which concatenates the pieces into Out.
type ZCWriter struct {
	pieces [][]byte
	n      int
	Out    []byte
	Flushes int
}

func (w *ZCWriter) Malloc(n int) ([]byte, error) {
	if n < 0 {
		return nil, errNeg
	}
	b := make([]byte, n)
	for i := range b {
		b[i] = 0xA7 ^ byte(i)
	}
	w.pieces = append(w.pieces, b)
	w.n += n
	return b, nil
}

func (w *ZCWriter) WriteBinary(bs []byte) (int, error) {
	w.pieces = append(w.pieces, bs) // retained, not copied
	w.n += len(bs)
	return len(bs), nil
}

func (w *ZCWriter) WrittenLen() int { return w.n }

func (w *ZCWriter) Flush() error {
	for _, p := range w.pieces {
		w.Out = append(w.Out, p...)
	}
	w.pieces, w.n = nil, 0
	w.Flushes++
	return nil
}

// DirectWriterV is the same recorder behind a NocopyWriter that is a struct VALUE, not a pointer (an interface
// holding it is non-nil, and it has no nil-able representation).
type DirectWriterV struct{ P *DirectWriter }

func (d DirectWriterV) WriteDirect(b []byte, remainCap int) error { return d.P.WriteDirect(b, remainCap) }
