package gen

import (
	"testing"

	"verifharness/ref"
)

func TestNestedPath(t *testing.T) {
	for _, p := range NestPaths {
		for d := 1; d <= 70; d++ {
			for _, e := range []bool{false, true} {
				b, top := NestedPath(p, d, e)
				pr := ref.Parse(b, top)
				if !pr.OK || pr.N != len(b) || pr.MaxNesting != d {
					t.Fatalf("path %s depth %d empty %v: ok=%v n=%d/%d nest=%d", p, d, e, pr.OK, pr.N, len(b), pr.MaxNesting)
				}
			}
		}
	}
}
