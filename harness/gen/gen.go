// Package gen holds the seeded generators shared by the monitors.
package gen

import (
	"math"
	"math/rand"

	"verifharness/ref"
)

// StringLens are the boundary string lengths.
var StringLens = []int{0, 1, 2, 3, 4, 127, 128, 4091, 4092, 4093, 4094, 4095, 4096, 4097, 4098, 4099, 4100, 4101, 8187, 8188, 8191, 8192, 8193, 8197, 12288, 65535, 65536, 70000}

// SmallStringLens excludes the very large ones.
var SmallStringLens = []int{0, 1, 2, 3, 4, 5, 7, 8, 15, 16, 17, 127, 128}

// Bytes returns n arbitrary bytes (incl. invalid UTF-8), position-coded with a random phase.
func Bytes(r *rand.Rand, n int) []byte {
	b := make([]byte, n)
	ph := r.Intn(251)
	switch r.Intn(3) {
	case 0:
		for i := range b {
			b[i] = byte(i*7 + ph)
		}
	case 1:
		r.Read(b)
	default:
		for i := range b {
			b[i] = byte('a' + (i+ph)%26)
		}
	}
	return b
}

// StrLen picks a string length: mostly small, sometimes boundary.
func StrLen(r *rand.Rand, big bool) int {
	switch x := r.Intn(20); {
	case x < 12:
		return r.Intn(12)
	case x < 17:
		return SmallStringLens[r.Intn(len(SmallStringLens))]
	case x < 19 && big:
		return StringLens[r.Intn(22)] // up to ~8197
	case big:
		return StringLens[r.Intn(len(StringLens))]
	}
	return r.Intn(300)
}

var i64Boundaries = []int64{0, 1, -1, 2, -2, 127, 128, -128, -129, 255, 256, 32767, 32768, -32768, -32769, 65535, 65536,
	math.MaxInt32, math.MinInt32, math.MaxInt32 + 1, math.MinInt32 - 1, math.MaxUint32, math.MaxInt64, math.MinInt64, 0x0102030405060708, -0x0102030405060708}

// I64 generates boundary / single-bit / byte-distinct / random 64-bit patterns.
func I64(r *rand.Rand) int64 {
	switch r.Intn(5) {
	case 0:
		return i64Boundaries[r.Intn(len(i64Boundaries))]
	case 1:
		return int64(uint64(1) << uint(r.Intn(64)))
	case 2:
		return int64(uint64(r.Intn(256)) * 0x0101010101010101)
	case 3:
		return ^int64(uint64(1) << uint(r.Intn(64)))
	}
	return int64(r.Uint64())
}

func I32(r *rand.Rand) int32 { return int32(I64(r)) }
func I16(r *rand.Rand) int16 { return int16(I64(r)) }

// F64Bits generates double bit patterns incl. NaN payloads, infinities, denormals.
func F64Bits(r *rand.Rand) uint64 {
	switch r.Intn(6) {
	case 0:
		return []uint64{0, 1 << 63, 0x7ff0000000000000, 0xfff0000000000000, 0x7ff8000000000000, 0x7ff0000000000001, 0xfff8000000000001, 0x7fffffffffffffff, 1, 0x000fffffffffffff, 0x0010000000000000, 0x3ff0000000000000}[r.Intn(12)]
	case 1:
		return uint64(1) << uint(r.Intn(64))
	case 2:
		return 0x7ff0000000000000 | (r.Uint64() & 0x000fffffffffffff) // NaN payloads
	case 3:
		return math.Float64bits(float64(r.Intn(1000)) / 7)
	}
	return r.Uint64()
}

// TreeOpts bounds the value-tree generator.
type TreeOpts struct {
	MaxDepth    int  // container nesting budget
	MaxElems    int  // max elements/fields per container
	BigStrings  bool // allow strings around 4096/8192
	Canonical   bool // booleans are 0/1 only
	AnyFieldIDs bool // field ids over the whole int16 range
	NoBigCounts bool // never generate containers with 60..260 elements
}

// Tree generates a random value of type t.
func Tree(r *rand.Rand, t byte, o TreeOpts, depth int) ref.Value {
	v := ref.Value{T: t}
	switch t {
	case ref.BOOL:
		v.Bool = r.Intn(2) == 1
		if !o.Canonical && r.Intn(4) == 0 {
			v.RawBool = byte(2 + r.Intn(254))
			v.Bool = false
		}
	case ref.BYTE:
		v.I = int64(int8(I64(r)))
	case ref.I16:
		v.I = int64(I16(r))
	case ref.I32:
		v.I = int64(I32(r))
	case ref.I64:
		v.I = I64(r)
	case ref.DOUBLE:
		v.F = F64Bits(r)
	case ref.STRING:
		v.S = Bytes(r, StrLen(r, o.BigStrings))
	case ref.STRUCT:
		n := 0
		if depth < o.MaxDepth {
			n = elemCount(r, o.MaxElems)
		}
		if bn, so, ok := bigCount(r, &o, depth); ok {
			n, o = bn, so
		}
		for i := 0; i < n; i++ {
			ft := pickType(r, depth+1 < o.MaxDepth)
			id := int16(i + 1)
			if o.AnyFieldIDs {
				id = I16(r)
			}
			v.Fields = append(v.Fields, ref.Field{ID: id, V: Tree(r, ft, o, depth+1)})
		}
	case ref.MAP:
		v.KT = pickType(r, depth+1 < o.MaxDepth)
		v.VT = pickType(r, depth+1 < o.MaxDepth)
		n := 0
		if depth < o.MaxDepth {
			n = elemCount(r, o.MaxElems)
		}
		if bn, so, ok := bigCount(r, &o, depth); ok {
			n, o = bn, so
		}
		for i := 0; i < n; i++ {
			v.Elems = append(v.Elems, Tree(r, v.KT, o, depth+1), Tree(r, v.VT, o, depth+1))
		}
	case ref.SET, ref.LIST:
		v.VT = pickType(r, depth+1 < o.MaxDepth)
		n := 0
		if depth < o.MaxDepth {
			n = elemCount(r, o.MaxElems)
		}
		if bn, so, ok := bigCount(r, &o, depth); ok {
			n, o = bn, so
		}
		for i := 0; i < n; i++ {
			v.Elems = append(v.Elems, Tree(r, v.VT, o, depth+1))
		}
	default:
		panic("gen: bad type")
	}
	return v
}

// bigCount decides (rarely) that a container gets 60..260 children; the children are then kept small.
func bigCount(r *rand.Rand, o *TreeOpts, depth int) (int, TreeOpts, bool) {
	if o.NoBigCounts || depth >= o.MaxDepth || r.Intn(40) != 0 {
		return 0, *o, false
	}
	small := *o
	small.NoBigCounts = true
	small.BigStrings = false
	small.MaxElems = 4
	if small.MaxDepth > depth+2 {
		small.MaxDepth = depth + 2
	}
	return 60 + r.Intn(200), small, true
}

func elemCount(r *rand.Rand, max int) int {
	switch x := r.Intn(10); {
	case x < 2:
		return 0
	case x < 4:
		return 1
	case x < 6:
		return 2
	}
	if max < 3 {
		return max
	}
	return 3 + r.Intn(max-2)
}

func pickType(r *rand.Rand, containers bool) byte {
	if containers {
		return ref.KnownTypes[r.Intn(len(ref.KnownTypes))]
	}
	return ref.KnownTypes[r.Intn(7)] // scalars + string
}

// TreeOfCombo builds a container of kind t with the given key/element types and n entries.
func TreeOfCombo(r *rand.Rand, t, kt, vt byte, n int, o TreeOpts) ref.Value {
	v := ref.Value{T: t, KT: kt, VT: vt}
	if t == ref.MAP {
		for i := 0; i < n; i++ {
			v.Elems = append(v.Elems, Tree(r, kt, o, 1), Tree(r, vt, o, 1))
		}
	} else {
		for i := 0; i < n; i++ {
			v.Elems = append(v.Elems, Tree(r, vt, o, 1))
		}
	}
	return v
}

// Nested builds `depth` nested containers of the given kind around an innermost value.
// inner 0: scalar i32, 1: string, 2: empty container of the same kind.
func Nested(kind byte, depth int, inner int) []byte {
	var b []byte
	closers := 0
	for i := 0; i < depth-1; i++ {
		switch kind {
		case ref.STRUCT:
			b = append(b, ref.STRUCT, 0, 1)
			closers++
		case ref.MAP:
			b = append(b, ref.I32, ref.MAP, 0, 0, 0, 1, 0, 0, 0, 9)
		case ref.SET, ref.LIST:
			b = append(b, kind, 0, 0, 0, 1)
		}
	}
	switch kind {
	case ref.STRUCT:
		switch inner {
		case 0:
			b = append(b, ref.I32, 0, 1, 0, 0, 0, 1, 0)
		case 1:
			b = append(b, ref.STRING, 0, 1, 0, 0, 0, 1, 'x', 0)
		default:
			b = append(b, 0)
		}
	case ref.MAP:
		switch inner {
		case 0:
			b = append(b, ref.I32, ref.I32, 0, 0, 0, 1, 0, 0, 0, 9, 0, 0, 0, 8)
		case 1:
			b = append(b, ref.I32, ref.STRING, 0, 0, 0, 1, 0, 0, 0, 9, 0, 0, 0, 1, 'x')
		default:
			b = append(b, ref.I32, ref.MAP, 0, 0, 0, 0)
		}
	case ref.SET, ref.LIST:
		switch inner {
		case 0:
			b = append(b, ref.I32, 0, 0, 0, 1, 0, 0, 0, 7)
		case 1:
			b = append(b, ref.STRING, 0, 0, 0, 1, 0, 0, 0, 1, 'x')
		default:
			b = append(b, kind, 0, 0, 0, 0)
		}
	}
	for i := 0; i < closers; i++ {
		b = append(b, 0)
	}
	return b
}

// NestedPath builds `depth` nested containers where level i is entered through path[i%len(path)]:
// 's' struct field, 'l' list element, 'e' set element, 'k' map key, 'v' map value. The innermost
// container holds one i32 (or is empty when emptyInner).
func NestedPath(path string, depth int, emptyInner bool) (b []byte, top byte) {
	kindOf := func(c byte) byte {
		switch c {
		case 's':
			return ref.STRUCT
		case 'l':
			return ref.LIST
		case 'e':
			return ref.SET
		}
		return ref.MAP
	}
	var tails [][]byte // bytes to emit after the child of each level (innermost last)
	top = kindOf(path[0])
	for i := 0; i < depth; i++ {
		c := path[i%len(path)]
		last := i == depth-1
		var child byte = ref.I32
		if !last {
			child = kindOf(path[(i+1)%len(path)])
		}
		switch c {
		case 's':
			if last && emptyInner {
				tails = append(tails, []byte{0})
				continue
			}
			b = append(b, child, 0, 1)
			tails = append(tails, []byte{0})
		case 'l', 'e':
			if last && emptyInner {
				b = append(b, ref.I32, 0, 0, 0, 0)
				tails = append(tails, nil)
				continue
			}
			b = append(b, child, 0, 0, 0, 1)
			tails = append(tails, nil)
		case 'k': // the child sits in key position, the value is an i32
			if last && emptyInner {
				b = append(b, ref.I32, ref.I32, 0, 0, 0, 0)
				tails = append(tails, nil)
				continue
			}
			b = append(b, child, ref.I32, 0, 0, 0, 1)
			tails = append(tails, []byte{0, 0, 0, 9})
		default: // 'v': i32 key, child in value position
			if last && emptyInner {
				b = append(b, ref.I32, ref.I32, 0, 0, 0, 0)
				tails = append(tails, nil)
				continue
			}
			b = append(b, ref.I32, child, 0, 0, 0, 1, 0, 0, 0, 9)
			tails = append(tails, nil)
		}
		if last {
			b = append(b, 0, 0, 0, 7) // the innermost i32
		}
	}
	for i := len(tails) - 1; i >= 0; i-- {
		b = append(b, tails[i]...)
	}
	return b, top
}

// NestPaths are the entry-position patterns used for deep-nesting workloads.
var NestPaths = []string{"s", "l", "e", "k", "v", "kv", "sk", "lk", "ke", "slkv", "vks", "kkv"}

// WrapSizes are non-negative element counts c for which c*w wraps modulo 2^32 to 0, w or 2w
// for an element width w in {4, 8, 16} (and c*w modulo 2^31 for w = 2): counts that a 32-bit
// multiplication turns into "fits".
var WrapSizes = func() []uint32 {
	var out []uint32
	for _, w := range []uint64{2, 4, 8, 9, 12, 16} {
		for k := uint64(1); k <= 7; k++ {
			for j := uint64(0); j <= 2; j++ {
				c := (k<<32)/w + j
				if c < 1<<31 && (c*w)%(1<<32) <= 2*w {
					out = append(out, uint32(c))
				}
			}
		}
	}
	return out
}()

// GrammarAlphabet is the byte alphabet for bounded-exhaustive hostile strings.
var GrammarAlphabet = []byte{0, 1, 2, 3, 6, 8, 0x0b, 0x0c, 0x0d, 0x0e, 0x0f, 0x10, 0x7f, 0x80, 0xff}

// BoundaryBytes are the values substituted into structural positions.
var BoundaryBytes = []byte{0, 1, 2, 3, 4, 6, 8, 10, 0x0b, 0x0c, 0x0d, 0x0e, 0x0f, 0x10, 0x11, 0x7f, 0x80, 0x81, 0xfe, 0xff}

// AlphabetString returns the idx-th string of length n over alphabet a (base-|a| digits).
func AlphabetString(a []byte, n int, idx int64) []byte {
	b := make([]byte, n)
	for i := n - 1; i >= 0; i-- {
		b[i] = a[idx%int64(len(a))]
		idx /= int64(len(a))
	}
	return b
}

func Pow(a int64, n int) int64 {
	r := int64(1)
	for i := 0; i < n; i++ {
		r *= a
	}
	return r
}

// Mutate produces a hostile variant of a valid encoding: truncation, structural-byte
// substitution, size-field boundary values, splices.
func Mutate(r *rand.Rand, enc []byte, other []byte) ([]byte, string) {
	if len(enc) == 0 {
		return enc, "empty"
	}
	switch r.Intn(8) {
	case 0:
		cut := r.Intn(len(enc))
		return append([]byte(nil), enc[:cut]...), "truncate"
	case 1:
		m := append([]byte(nil), enc...)
		m[r.Intn(len(m))] = BoundaryBytes[r.Intn(len(BoundaryBytes))]
		return m, "subst1"
	case 2:
		m := append([]byte(nil), enc...)
		for k := 0; k < 2+r.Intn(3); k++ {
			m[r.Intn(len(m))] = BoundaryBytes[r.Intn(len(BoundaryBytes))]
		}
		return m, "substN"
	case 3:
		// overwrite a 4-byte window with a boundary size
		m := append([]byte(nil), enc...)
		if len(m) >= 4 {
			sizes := []uint32{0, 1, 2, 0x7fffffff, 0x80000000, 0xffffffff, 0x7ffffffe, 0x00010000, 0xfffffffe, uint32(len(m)), uint32(len(m)) + 1}
			sizes = append(sizes, WrapSizes...)
			s := sizes[r.Intn(len(sizes))]
			p := r.Intn(len(m) - 3)
			m[p], m[p+1], m[p+2], m[p+3] = byte(s>>24), byte(s>>16), byte(s>>8), byte(s)
		}
		return m, "size-window"
	case 4:
		// splice
		if len(other) > 0 {
			a := r.Intn(len(enc) + 1)
			b := r.Intn(len(other) + 1)
			m := append(append([]byte(nil), enc[:a]...), other[b:]...)
			return m, "splice"
		}
		return append([]byte(nil), enc...), "valid"
	case 5:
		// delete a byte
		p := r.Intn(len(enc))
		m := append(append([]byte(nil), enc[:p]...), enc[p+1:]...)
		return m, "delete1"
	case 6:
		// insert a byte
		p := r.Intn(len(enc) + 1)
		m := append(append(append([]byte(nil), enc[:p]...), BoundaryBytes[r.Intn(len(BoundaryBytes))]), enc[p:]...)
		return m, "insert1"
	}
	// valid + trailing garbage
	t := make([]byte, r.Intn(6))
	r.Read(t)
	return append(append([]byte(nil), enc...), t...), "valid+tail"
}
