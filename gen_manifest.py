#!/usr/bin/env python3
"""Regenerates MANIFEST.json from manifest_table.json (kept separate so the per-property prose is easy to edit)."""
import json, os, subprocess
here = os.path.dirname(os.path.abspath(__file__))
tbl = json.load(open(os.path.join(here, "manifest_table.json")))
props = [json.loads(l)["id"] for l in open(os.path.join(here, "properties.jsonl"))]
checks, na = [], []
for pid in props:
    t = tbl["checks"].get(pid)
    if not t or t.get("not_applicable"):
        na.append({"property_id": pid, "reason": (t or {}).get("reason", "monitor not built yet")})
        continue
    checks.append({
        "property_id": pid,
        "quick_cmd": f"./run.sh {pid} quick",
        "thorough_cmd": f"./run.sh {pid} thorough",
        "evidence_file": f"/verif/evidence/{pid}.json",
        "replay_cmd_template": f"./run.sh {pid} --replay {{path}}",
        "engine": "vh",
        "level_claimed": {"category": t["level"], "text": t["text"], "design_ref": t.get("design_ref", f"DESIGN.md §3 {pid}")},
        "level_note": t["note"],
        "technique": t["technique"],
    })
m = {
    "version": 1,
    "setup_cmd": "./setup.sh",
    "hooks": tbl["hooks"],
    "engines": tbl["engines"],
    "checks": checks,
    "not_applicable": na,
    "notes": tbl["notes"],
}
json.dump(m, open(os.path.join(here, "MANIFEST.json"), "w"), indent=1)
print("checks:", len(checks), "not_applicable:", len(na))
