#!/bin/bash
# Reach measurement: statement coverage of /repo (non-test code) under the monitors of the given tier,
# plain flavour only. Writes selftest/COVERAGE.txt (per function) and prints the uncovered blocks.
#   selftest/coverage.sh [tier] [ids...]
set -u
ROOT="$(cd "$(dirname "$0")/.." && pwd)"
TIER="${1:-quick}"; shift || true
IDS="${*:-C01 C02 C03 C04 C05 C06 C07 C08 C09 C10 C11 C12 C13 C14 C15 C16 C17 C18 C19 C20}"
export GOFLAGS=-mod=mod GOPROXY=off GOSUMDB=off GOTOOLCHAIN=local
CD=/root/vscratch/cover-$$; rm -rf $CD; mkdir -p $CD/all
trap 'rm -rf $CD' EXIT
for id in $IDS; do
  mkdir -p $CD/$id
  (cd $ROOT && VERIF_COVER=$CD/$id VERIF_ONLY_FLAVOUR=plain VERIF_EXTRA=-no-evidence ./run.sh $id $TIER 2>&1 | grep -E "^(SUMMARY|VIOLATION|INCONCLUSIVE)" | cut -c1-200)
  (cd /repo && go tool covdata textfmt -i=$CD/$id -o $CD/$id.raw 2>/dev/null && grep -v "_test.go\|internal/testutils\|^verifharness" $CD/$id.raw > $CD/$id.txt)
done
dirs=$(ls -d $CD/C?? | tr '\n' ',' | sed 's/,$//')
(cd /repo && go tool covdata textfmt -i=$dirs -o $CD/all.txt)
grep -v "_test.go\|internal/testutils\|^verifharness" $CD/all.txt > $CD/all.f.txt
(cd /repo && go tool cover -func=$CD/all.f.txt) > $ROOT/selftest/COVERAGE.txt
tail -1 $ROOT/selftest/COVERAGE.txt
# uncovered blocks
awk -F'[ :]' 'NR>1 && $NF==0 {print $1":"$2}' $CD/all.f.txt | sort -u > $ROOT/selftest/UNCOVERED.txt
wc -l $ROOT/selftest/UNCOVERED.txt
# per-property totals
for id in $IDS; do
  [ -f $CD/$id.txt ] || continue
  t=$(cd /repo && go tool cover -func=$CD/$id.txt 2>/dev/null | tail -1 | awk '{print $NF}')
  echo "$id $t"
done > $ROOT/selftest/COVERAGE_by_property.txt
cat $ROOT/selftest/COVERAGE_by_property.txt | tr '\n' ' '; echo
