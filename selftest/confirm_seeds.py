#!/usr/bin/env python3
"""Confirms sub-agent-produced seeded defects in a scratch worktree and files them under /verif/seeded/.
Usage: confirm_seeds.py [/tmp/seed [name-suffix]]   (only needed when new seeds were produced)"""
import json, os, shutil, subprocess, sys
SRC = sys.argv[1] if len(sys.argv) > 1 else "/tmp/seed"
SUFFIX = sys.argv[2] if len(sys.argv) > 2 else ""
ENV = dict(os.environ, GOFLAGS="-mod=mod", GOPROXY="off", GOSUMDB="off", GOTOOLCHAIN="local")
WT = "/root/vscratch/confirm"
def sh(cmd, cwd=None, timeout=900):
    p = subprocess.run(cmd, shell=True, cwd=cwd, env=ENV, stdout=subprocess.PIPE, stderr=subprocess.STDOUT, timeout=timeout)
    return p.returncode, p.stdout.decode(errors="replace")
def fresh():
    sh(f"git -C /repo worktree remove --force {WT}")
    shutil.rmtree(WT, ignore_errors=True)
    rc, out = sh(f"git -C /repo worktree add -q --detach {WT} HEAD")
    assert rc == 0, out
results = []
for pid in sorted(os.listdir(SRC)):
    for var in ("a", "b", "c"):
        d = os.path.join(SRC, pid, "out", var)
        if not os.path.isfile(os.path.join(d, "patch.diff")):
            continue
        meta = json.load(open(os.path.join(d, "meta.json")))
        name = f"{pid}{var}{SUFFIX}"
        fresh()
        demo_dst = os.path.join(WT, meta["demo_dir"], f"zz_seed_{name.lower()}_test.go")
        shutil.copy(os.path.join(d, "demo_test.go"), demo_dst)
        rc0, out0 = sh(meta["demo_cmd"], cwd=WT)                       # demo without patch: must pass
        rca, outa = sh(f"git apply {d}/patch.diff", cwd=WT)
        rcb, outb = sh("go build ./...", cwd=WT)
        os.remove(demo_dst)
        rcs, outs = sh("go test -count=1 ./...", cwd=WT)               # suite with patch: must pass
        shutil.copy(os.path.join(d, "demo_test.go"), demo_dst)
        rc1, out1 = sh(meta["demo_cmd"], cwd=WT)                       # demo with patch: must fail
        ok = rc0 == 0 and rca == 0 and rcb == 0 and rcs == 0 and rc1 != 0
        print(f"{name}: demo_without={rc0} apply={rca} build={rcb} suite={rcs} demo_with={rc1} -> {'CONFIRMED' if ok else 'REJECTED'}", flush=True)
        if ok:
            dst = f"/verif/seeded/{name}"
            os.makedirs(dst, exist_ok=True)
            shutil.copy(os.path.join(d, "patch.diff"), dst)
            shutil.copy(os.path.join(d, "demo_test.go"), dst)
            meta["breaks_property"] = pid
            meta["base_commit"] = subprocess.check_output("git -C /repo rev-parse HEAD", shell=True).decode().strip()
            meta["confirmed"] = {"demo_passes_without_patch": True, "patch_applies": True, "builds": True, "existing_suite_passes_with_patch": True, "demo_fails_with_patch": True,
                                 "how": "selftest/confirm_seeds.py in a scratch git worktree of /repo HEAD"}
            meta["demo_failure_excerpt"] = out1[-1500:]
            json.dump(meta, open(os.path.join(dst, "meta.json"), "w"), indent=1)
        else:
            open(f"{SRC}/{pid}/out/{var}/REJECT.log", "w").write(out0 + outa + outb + outs + out1)
        results.append((name, ok))
sh(f"git -C /repo worktree remove --force {WT}")
print(sum(1 for _, ok in results if ok), "confirmed of", len(results))
