#!/usr/bin/env python3
"""Mutation campaign (self-test of the monitors, never part of a registered command).

Generates single-line mutants of /repo's non-test sources with generic operators, keeps those that
still build and pass the repository's own test suite, and runs the quick checks of the properties
anchored in the mutated file against each (on a scratch worktree, via VERIF_REPO). A mutant that no
check reports is a SURVIVOR: either an equivalent mutant or a blind spot of the monitors.

  selftest/mutate.py list                         # count mutants per file and operator
  selftest/mutate.py run  N [PAR] [SEED] [glob]   # sample N mutants (deterministic), PAR slots
  selftest/mutate.py one  <file> <line> <op-index>  # (debug) show one mutant
Results: selftest/mutation/results.jsonl (appended), selftest/mutation/SUMMARY.md (rewritten by `summary`).
"""
import collections, fnmatch, hashlib, json, os, random, re, subprocess, sys, threading, time

ROOT = os.path.dirname(os.path.dirname(os.path.abspath(__file__)))
REPO = "/repo"
OUT = os.path.join(ROOT, "selftest", "mutation")
ENV = dict(os.environ, GOFLAGS="-mod=mod", GOPROXY="off", GOSUMDB="off", GOTOOLCHAIN="local")
COST = ["C20", "C18", "C19", "C17", "C13", "C12", "C02", "C06", "C16", "C10", "C11", "C15", "C01", "C03", "C05", "C04", "C07", "C09", "C08", "C14"]
SKIP_FILES = {"internal/testutils/netpoll/netpoll.go", "protocol/ttheader/metakey.go"}

def file_props():
    m = collections.defaultdict(list)
    for l in open(os.path.join(ROOT, "properties.jsonl")):
        d = json.loads(l)
        for f in d["anchors"]["files"]:
            m[f].append(d["id"])
    # files no property anchors directly
    m.setdefault("internal/hash/maphash/maphash_go118.go", ["C07"])
    # helpers and constants used by more entry points than the properties anchor them in
    m["protocol/thrift/utils.go"] += ["C02", "C08", "C17"]
    m["protocol/thrift/thrift.go"] += ["C01", "C17", "C02", "C03"]
    for f in m:
        m[f] = sorted(set(m[f]), key=COST.index)
    return m

def sources():
    out = subprocess.check_output(["git", "-C", REPO, "ls-files", "*.go"], text=True).split()
    return [f for f in out if not f.endswith("_test.go") and f not in SKIP_FILES]

def strip(line):
    """code part of a line (no // comment, strings blanked)"""
    s = re.sub(r'"(\\.|[^"\\])*"', lambda m: '"' + "_" * (len(m.group(0)) - 2) + '"', line)
    s = re.sub(r"'(\\.|[^'\\])*'", lambda m: "'" + "_" * (len(m.group(0)) - 2) + "'", s)
    i = s.find("//")
    return s if i < 0 else s[:i]

REL = [(" < ", " <= "), (" <= ", " < "), (" > ", " >= "), (" >= ", " > "), (" == ", " != "), (" != ", " == "),
       (" && ", " || "), (" || ", " && "), (" + ", " - "), (" - ", " + "), (" += ", " -= "), (" -= ", " += "),
       (" * ", " / "), (" << ", " >> "), (" >> ", " << "), (" & ", " | "), (" | ", " & "), ("++", "--")]

def mutants_of_line(line):
    """yield (op, newline)"""
    code = strip(line)
    if not code.strip() or code.strip().startswith(("import", "package", "func ", "type ", "}", "//")):
        pass
    # operator replacements (every occurrence separately)
    for a, b in REL:
        start = 0
        while True:
            i = code.find(a, start)
            if i < 0:
                break
            yield (f"{a.strip()}->{b.strip()}", line[:i] + b + line[i + len(a):])
            start = i + len(a)
    # integer literals +-1 (decimal, small)
    for m in re.finditer(r"(?<![\w.\"])(\d+)(?![\w.xX])", code):
        v = int(m.group(1))
        if v > 70000:
            continue
        for nv in (v + 1, v - 1):
            if nv < 0:
                continue
            yield (f"const {v}->{nv}", line[:m.start(1)] + str(nv) + line[m.end(1):])
    st = code.strip()
    # condition forcing / negation
    m = re.match(r"^(\s*)(if|} else if) (.*) \{\s*$", code)
    if m and ";" not in m.group(3):
        ind, kw, cond = m.groups()
        yield ("if !cond", f"{ind}{kw} !({cond}) {{\n")
        yield ("if false", f"{ind}{kw} false && ({cond}) {{\n")
        yield ("if true", f"{ind}{kw} true || ({cond}) {{\n")
    # statement deletion: simple assignments / calls / inc / return-free statements
    if re.match(r"^[\w\.\[\]\*\(\)]+ (=|\+=|-=|\|=|&=) [^{]*$", st) or re.match(r"^[\w\.]+\([^{]*\)$", st) or re.match(r"^[\w\.\[\]]+(\+\+|--)$", st):
        ind = line[: len(line) - len(line.lstrip())]
        yield ("delete stmt", ind + "// deleted\n")
    # early "return": return x, err -> keep; `break`/`continue` swap
    if st == "break":
        yield ("break->continue", line.replace("break", "continue"))
    if st == "continue":
        yield ("continue->break", line.replace("continue", "break"))
    # drop an error check: `if err != nil {` handled by if-false above
    # int32/uint32/uint16 conversions: widen/narrow confusions
    for a, b in [("int32(", "int("), ("uint32(", "int32("), ("uint16(", "uint8("), ("int(int32(", "int(uint32("), ("uint8(", "int8(")]:
        start = 0
        while True:
            i = code.find(a, start)
            if i < 0:
                break
            if i == 0 or not (code[i - 1].isalnum() or code[i - 1] == "_"):
                yield (f"conv {a}->{b}", line[:i] + b + line[i + len(a):])
            start = i + len(a)

def all_mutants(glob="*"):
    res = []
    for f in sources():
        if not fnmatch.fnmatch(f, glob):
            continue
        lines = open(os.path.join(REPO, f)).read().split("\n")
        in_block_comment = False
        in_const_table = False
        for n, l in enumerate(lines):
            s = l.strip()
            if in_block_comment:
                if "*/" in s:
                    in_block_comment = False
                continue
            if s.startswith("/*"):
                if "*/" not in s:
                    in_block_comment = True
                continue
            if s.startswith("//") or s.startswith("import") or s.startswith("package"):
                continue
            seen = set()
            for k, (op, nl) in enumerate(mutants_of_line(l + "\n")):
                if nl.rstrip("\n") == l or nl in seen:
                    continue
                seen.add(nl)
                res.append({"file": f, "line": n + 1, "op": op, "orig": l.strip(), "new": nl.strip(), "_new": nl.rstrip("\n")})
    return res

def mid(m):
    return hashlib.sha1(f"{m['file']}:{m['line']}:{m['_new']}".encode()).hexdigest()[:10]

def sh(cmd, cwd, timeout):
    try:
        p = subprocess.run(cmd, cwd=cwd, env=ENV, shell=isinstance(cmd, str), stdout=subprocess.PIPE, stderr=subprocess.STDOUT, text=True, errors="replace", timeout=timeout)
        return p.returncode, p.stdout
    except subprocess.TimeoutExpired as e:
        return 124, (e.stdout or b"").decode(errors="replace") if isinstance(e.stdout, bytes) else (e.stdout or "")

lock = threading.Lock()
suite_lock = threading.Lock()

def run_one(m, wt, props_of):
    path = os.path.join(wt, m["file"])
    orig = open(path).read()
    lines = orig.split("\n")
    lines[m["line"] - 1] = m["_new"]
    res = {k: v for k, v in m.items() if not k.startswith("_")}
    res["id"] = mid(m)
    t0 = time.time()
    try:
        open(path, "w").write("\n".join(lines))
        rc, out = sh(["go", "build", "./..."], wt, 300)
        if rc != 0:
            res["result"] = "nocompile"
            return res
        with suite_lock:  # the repository's suite binds a fixed TCP port (ttheader TestEncode): one run at a time
            rc, out = sh(["go", "test", "-count=1", "-timeout", "120s", "./..."], wt, 400)
        if rc != 0 and "address already in use" in out:
            time.sleep(5)
            with suite_lock:
                rc, out = sh(["go", "test", "-count=1", "-timeout", "120s", "./..."], wt, 400)
        if rc != 0:
            res["result"] = "suite"
            return res
        res["checks"] = {}
        for p in props_of.get(m["file"], []):
            env = dict(ENV, VERIF_REPO=wt, VERIF_EXTRA="-no-evidence")
            try:
                pr = subprocess.run(["./run.sh", p, "quick"], cwd=ROOT, env=env, stdout=subprocess.PIPE, stderr=subprocess.STDOUT, text=True, errors="replace", timeout=1500)
                rc, out = pr.returncode, pr.stdout
            except subprocess.TimeoutExpired:
                rc, out = 124, ""
            if rc == 1 and f"VIOLATION property={p}" in out:
                cs = sorted(set(re.findall(r"check=([^ ;]+)", out)))
                res["checks"][p] = "KILLED " + ",".join(cs[:3])
                res["result"] = "killed"
                res["killed_by"] = p
                return res
            res["checks"][p] = {0: "silent", 2: "inconclusive", 124: "timeout"}.get(rc, f"rc={rc}")
            if rc not in (0,):
                res["note"] = (out[-400:] if out else "")
        res["result"] = "SURVIVED" if all(v == "silent" for v in res["checks"].values()) else "unclear"
        return res
    finally:
        open(path, "w").write(orig)
        res["secs"] = round(time.time() - t0, 1)

def main():
    os.makedirs(OUT, exist_ok=True)
    cmd = sys.argv[1] if len(sys.argv) > 1 else "list"
    if cmd == "list":
        ms = all_mutants(sys.argv[2] if len(sys.argv) > 2 else "*")
        c = collections.Counter(m["file"] for m in ms)
        for f, n in sorted(c.items()):
            print(f"{n:5d} {f}")
        print(len(ms), "mutants;", collections.Counter(m["op"].split(" ")[0] for m in ms).most_common(12))
        return
    if cmd == "summary":
        summary()
        return
    if cmd == "redo":
        ids = set(sys.argv[2:])
        ms = [m for m in all_mutants() if mid(m) in ids]
        props_of = file_props()
        wt = f"/root/vscratch/mut-{os.getpid()}-redo"
        subprocess.check_call(["git", "-C", REPO, "worktree", "add", "-q", "--detach", wt, "HEAD"])
        try:
            for m in ms:
                r = run_one(m, wt, props_of)
                open(os.path.join(OUT, "results.jsonl"), "a").write(json.dumps(r) + "\n")
                print(r["id"], r["result"], r.get("killed_by", ""), r.get("checks"))
        finally:
            subprocess.call(["git", "-C", REPO, "worktree", "remove", "--force", wt])
        summary()
        return
    if cmd == "run":
        n = int(sys.argv[2]); par = int(sys.argv[3]) if len(sys.argv) > 3 else 3
        seed = int(sys.argv[4]) if len(sys.argv) > 4 else 1
        glob = sys.argv[5] if len(sys.argv) > 5 else "*"
        ms = all_mutants(glob)
        done = set()
        rf = os.path.join(OUT, "results.jsonl")
        if os.path.exists(rf):
            for l in open(rf):
                try:
                    done.add(json.loads(l)["id"])
                except Exception:
                    pass
        random.Random(seed).shuffle(ms)
        todo = [m for m in ms if mid(m) not in done][:n]
        props_of = file_props()
        print(f"{len(ms)} mutants in total, {len(done)} already done, running {len(todo)} on {par} slots", flush=True)
        it = iter(todo)
        def worker(k):
            wt = f"/root/vscratch/mut-{os.getpid()}-{k}"
            subprocess.check_call(["git", "-C", REPO, "worktree", "add", "-q", "--detach", wt, "HEAD"])
            try:
                while True:
                    with lock:
                        m = next(it, None)
                    if m is None:
                        return
                    r = run_one(m, wt, props_of)
                    with lock:
                        open(rf, "a").write(json.dumps(r) + "\n")
                        print(f"{r['result']:9s} {r.get('killed_by',''):4s} {r['file']}:{r['line']} [{r['op']}] {r['new'][:80]}  ({r['secs']}s)", flush=True)
            finally:
                subprocess.call(["git", "-C", REPO, "worktree", "remove", "--force", wt])
        ts = [threading.Thread(target=worker, args=(k,)) for k in range(par)]
        [t.start() for t in ts]
        [t.join() for t in ts]
        summary()

def summary():
    rf = os.path.join(OUT, "results.jsonl")
    rs = {}
    for l in open(rf):
        r = json.loads(l)
        rs[r["id"]] = r
    rs = list(rs.values())
    c = collections.Counter(r["result"] for r in rs)
    valid = [r for r in rs if r["result"] in ("killed", "SURVIVED", "unclear")]
    out = ["# Mutation campaign (selftest/mutate.py)", "",
           f"{len(rs)} mutants tried: {c['nocompile']} did not compile, {c['vet']} rejected by go vet, {c['suite']} killed by the repository's own test suite, "
           f"**{len(valid)} compile and pass the suite**; of these {c['killed']} were reported by a quick check of a property anchored in the mutated file, "
           f"{c['SURVIVED']} survived, {c['unclear']} unclear (a check was inconclusive).", "",
           "| file | pass suite | killed by checks | survived |", "|---|---|---|---|"]
    byf = collections.defaultdict(lambda: collections.Counter())
    for r in valid:
        byf[r["file"]][r["result"]] += 1
    for f in sorted(byf):
        out.append(f"| {f} | {sum(byf[f].values())} | {byf[f]['killed']} | {byf[f]['SURVIVED'] + byf[f]['unclear']} |")
    out += ["", "## Survivors", "", "| id | file:line | operator | mutated line | checks run | judgement |", "|---|---|---|---|---|---|"]
    judge = {}
    jf = os.path.join(OUT, "judgements.json")
    if os.path.exists(jf):
        judge = json.load(open(jf))
    for r in sorted(valid, key=lambda r: (r["file"], r["line"])):
        if r["result"] == "killed":
            continue
        out.append(f"| {r['id']} | {r['file']}:{r['line']} | {r['op']} | `{r['new'][:90].replace('|','/')}` | {' '.join(r.get('checks',{}).keys())} | {judge.get(r['id'],'')} |")
    kb = collections.Counter(r["killed_by"] for r in valid if r["result"] == "killed")
    out += ["", "Killed by: " + ", ".join(f"{k} {v}" for k, v in sorted(kb.items()))]
    open(os.path.join(OUT, "SUMMARY.md"), "w").write("\n".join(out) + "\n")
    print(out[2])

if __name__ == "__main__":
    main()
