#!/bin/bash
# Runs one check against one seeded defect on a scratch copy of /repo (never /repo itself).
#   selftest/run_seeded.sh <seed-name e.g. C04a> [property-id (default: the seed's own)] [tier]
# exit 0 = the check printed a VIOLATION (caught), 1 = missed, 2 = inconclusive
set -u
NAME="$1"; PROP="${2:-${NAME:0:3}}"; TIER="${3:-quick}"
ROOT="$(cd "$(dirname "$0")/.." && pwd)"
SEED=$ROOT/seeded/$NAME
[ -f $SEED/patch.diff ] || { echo "no such seed $NAME"; exit 2; }
WT=/root/vscratch/seed-$NAME-$$
git -C /repo worktree add -q --detach $WT HEAD || exit 2
trap 'git -C /repo worktree remove --force $WT >/dev/null 2>&1; rm -rf $WT' EXIT
git -C $WT apply $SEED/patch.diff 2>/dev/null || git -C $WT apply -3 $SEED/patch.diff >/dev/null 2>&1 || { echo "patch does not apply"; exit 2; }
if git -C $WT diff --name-only --diff-filter=U | grep -q .; then echo "patch conflicts with the current tree"; exit 2; fi
OUT=$(cd $ROOT && VERIF_REPO=$WT VERIF_EXTRA=-no-evidence ./run.sh $PROP $TIER 2>&1)
RC=$?
echo "$OUT" | grep -E "^(VIOLATION|  check=|SUMMARY|INCONCLUSIVE|KNOWN)" | cut -c1-260 | head -12
if [ $RC -eq 1 ] && echo "$OUT" | grep -q "^VIOLATION property=$PROP"; then echo "RESULT $NAME/$PROP: CAUGHT"; exit 0; fi
if [ $RC -eq 0 ]; then echo "RESULT $NAME/$PROP: MISSED"; exit 1; fi
echo "RESULT $NAME/$PROP: rc=$RC"; exit 2
