#!/usr/bin/env python3
"""Builds seeded/RESULTS.md from the seeds' meta.json and the latest selftest/matrix.sh output (.work/matrix)."""
import json, os, re, glob
root = os.path.dirname(os.path.dirname(os.path.abspath(__file__)))
rows = []
for d in sorted(glob.glob(os.path.join(root, "seeded", "*"))):
    if not os.path.isdir(d): continue
    n = os.path.basename(d)
    m = json.load(open(os.path.join(d, "meta.json")))
    f = os.path.join(root, ".work", "matrix", n + ".txt")
    res, checks = "not run", ""
    if os.path.exists(f):
        t = open(f).read()
        r = re.findall(r"^RESULT \S+: (.*)$", t, re.M)
        res = r[-1] if r else "?"
        cs = sorted(set(re.findall(r"check=([^ ;]+)", t)))
        checks = ", ".join(cs[:5])
    if m.get("expected_result") and res != "CAUGHT":
        res = res + " (" + m["expected_result"].split(":")[0].split("(")[0].strip() + ")"
    rows.append((n, m.get("breaks_property", "?"), m.get("summary", "").replace("|", "/")[:150], m.get("needs", "").replace("|", "/")[:130], res, checks))
out = ["# Seeded changes and the checks that catch them", "",
       "Produced by `selftest/matrix.sh quick` (each change applied to a scratch worktree of /repo HEAD, the quick check of the property it breaks run against it) and `selftest/report.py`.",
       "`C??a/b` = first round of independent sub-agent changes, `C??a2/b2` = second round (asked for subtler ones), `C??a3/b3/c3` = third round (three variants, triggers that random generation is unlikely to hit), `D1..D19` = re-introductions of the repaired defects, `M??` = written here after the reach measurement.", "",
       "| seed | property | change | needs | result | violated checks (first 5) |", "|---|---|---|---|---|---|"]
for r in rows:
    out.append("| " + " | ".join(r) + " |")
caught = sum(1 for r in rows if r[4] == "CAUGHT")
notes = [f"* {os.path.basename(d)}: {json.load(open(os.path.join(d, 'meta.json')))['expected_result']}" for d in sorted(glob.glob(os.path.join(root, "seeded", "*"))) if os.path.isdir(d) and json.load(open(os.path.join(d, "meta.json"))).get("expected_result")]
out += ["", f"{caught} of {len(rows)} caught by the quick check of the property they break.", "", "Not caught by the quick check, with the reason:"] + notes
open(os.path.join(root, "seeded", "RESULTS.md"), "w").write("\n".join(out) + "\n")
print(caught, "of", len(rows))
