#!/bin/bash
# Runs every seeded defect against the check of the property it breaks (PAR at a time) and prints a table.
#   selftest/matrix.sh [tier] [PAR]
ROOT="$(cd "$(dirname "$0")/.." && pwd)"
TIER="${1:-quick}"; PAR="${2:-4}"
OUT=$ROOT/.work/matrix; mkdir -p $OUT; rm -f $OUT/*.txt
run() { n=$1; p=$(python3 -c "import json;print(json.load(open('$ROOT/seeded/$n/meta.json'))['breaks_property'])"); $ROOT/selftest/run_seeded.sh $n $p $TIER > $OUT/$n.txt 2>&1; }
export -f run; export ROOT TIER OUT
ls $ROOT/seeded | xargs -P $PAR -I{} bash -c 'run {}'
for f in $(ls $OUT/*.txt | sort); do n=$(basename $f .txt); r=$(grep -h "^RESULT" $f | tail -1); c=$(grep -h "check=" $f | sed -e 's/.*check=\([^ ]*\).*/\1/' | sort -u | head -4 | tr '\n' ',' ); echo "$r  [$c]"; done
