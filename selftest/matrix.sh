#!/bin/bash
# Runs seeded defects against the check of the property each breaks (PAR at a time) and prints a table.
#   selftest/matrix.sh [tier] [PAR] [name-glob]
ROOT="$(cd "$(dirname "$0")/.." && pwd)"
TIER="${1:-quick}"; PAR="${2:-4}"; GLOB="${3:-*}"
OUT=$ROOT/.work/matrix; mkdir -p $OUT
run() { n=$1; p=$(python3 -c "import json;print(json.load(open('$ROOT/seeded/$n/meta.json'))['breaks_property'])"); $ROOT/selftest/run_seeded.sh $n $p $TIER > $OUT/$n.txt 2>&1; }
export -f run; export ROOT TIER OUT
(cd $ROOT/seeded && ls -d $GLOB | grep -v RESULTS) | xargs -P $PAR -I{} bash -c 'run {}'
for n in $(cd $ROOT/seeded && ls -d $GLOB | grep -v RESULTS | sort); do f=$OUT/$n.txt; r=$(grep -h "^RESULT" $f | tail -1); c=$(grep -h "check=" $f | sed -e 's/.*check=\([^ ;]*\).*/\1/' | sort -u | head -4 | tr '\n' ',' ); echo "$r  [$c]"; done
