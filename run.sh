#!/bin/bash
# Entry point used by MANIFEST.json:  ./run.sh <property-id> <quick|thorough>   |   ./run.sh <id> --replay <file>
# Rebuilds the harness against /repo's current working tree on every invocation.
set -u
cd "$(dirname "$0")"
export VERIF_ROOT="$(pwd)"
export GOFLAGS=-mod=mod GOPROXY=off GOSUMDB=off GOTOOLCHAIN=local CGO_ENABLED=1
ID="${1:?property id}"; MODE="${2:-quick}"
mkdir -p .work/bin evidence replays
./prepare.sh >/dev/null 2>.work/prepare.err || { echo "INCONCLUSIVE property=$ID prepare failed: $(tail -3 .work/prepare.err)"; exit 2; }
# the driver binary itself is always built against /repo (it only orchestrates; workers are built per flavour by the driver)
VH=.work/bin/vh.$$
trap 'rm -f $VH' EXIT
if ! (cd harness && go build -o ../$VH ./cmd/vh) 2>.work/build.$$.err; then
  echo "INCONCLUSIVE property=$ID harness build failed:"; tail -20 .work/build.$$.err; rm -f .work/build.$$.err; exit 2
fi
rm -f .work/build.$$.err
if [ "$MODE" = "--replay" ]; then
  $VH replay -file "${3:?replay file}"; exit $?
fi
$VH drive -prop "$ID" -tier "$MODE" ${VERIF_EXTRA:-}
exit $?
