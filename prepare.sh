#!/bin/bash
# (Re)creates generated, git-ignored inputs of the harness: go.sum, the shimmed copies of the
# bytedance/gopkg dependency, the legacy unsafex variant copied from /repo.
set -eu
cd "$(dirname "$0")"
export GOFLAGS=-mod=mod GOPROXY=off GOSUMDB=off GOTOOLCHAIN=local
H=harness
[ -f $H/go.sum ] || cp /repo/go.sum $H/go.sum
MC=$(go env GOMODCACHE)/github.com/bytedance/gopkg@v0.1.1
for v in poison yield; do
  D=shim/gopkg-$v
  if [ ! -f $D/.stamp ] || [ shim/mcache_$v.go.txt -nt $D/.stamp ]; then
    rm -rf $D; mkdir -p $D/lang $D/cloud
    cp -r $MC/lang/mcache $MC/lang/dirtmake $MC/lang/span $D/lang/
    cp -r $MC/cloud/metainfo $D/cloud/
    chmod -R u+w $D
    find $D -name '*_test.go' -delete
    cp $MC/go.mod $D/go.mod
    cp shim/mcache_$v.go.txt $D/lang/mcache/mcache.go
    touch $D/.stamp
  fi
done
# legacy unsafex variant (pre-go1.21 file), regenerated from /repo on every run
mkdir -p $H/mon/legacyunsafex
sed -e '/^\/\/go:build/d' -e '/^\/\/ +build/d' -e 's/^package unsafex/package legacyunsafex/' /repo/unsafex/unsafex_go100.go > $H/mon/legacyunsafex/legacy_gen.go.tmp
if ! cmp -s $H/mon/legacyunsafex/legacy_gen.go.tmp $H/mon/legacyunsafex/legacy_gen.go 2>/dev/null; then mv $H/mon/legacyunsafex/legacy_gen.go.tmp $H/mon/legacyunsafex/legacy_gen.go; else rm $H/mon/legacyunsafex/legacy_gen.go.tmp; fi
