#!/bin/bash
# (Re)creates generated, git-ignored inputs of the harness: go.sum, the shimmed copies of the
# bytedance/gopkg dependency, the legacy unsafex variant copied from /repo.
set -eu
cd "$(dirname "$0")"
mkdir -p .work
export GOFLAGS=-mod=mod GOPROXY=off GOSUMDB=off GOTOOLCHAIN=local
H=harness
[ -f $H/go.sum ] || cp /repo/go.sum $H/go.sum
MC=$(go env GOMODCACHE)/github.com/bytedance/gopkg@v0.1.1
for v in poison yield; do
  D=shim/gopkg-$v
  if [ ! -f $D/.stamp ] || [ shim/mcache_$v.go.txt -nt $D/.stamp ]; then
    ( flock 9
    if [ ! -f $D/.stamp ] || [ shim/mcache_$v.go.txt -nt $D/.stamp ]; then
    rm -rf $D; mkdir -p $D/lang $D/cloud
    cp -r $MC/lang/mcache $MC/lang/dirtmake $MC/lang/span $D/lang/
    cp -r $MC/cloud/metainfo $D/cloud/
    chmod -R u+w $D
    find $D -name '*_test.go' -delete
    cp $MC/go.mod $D/go.mod
    cp shim/mcache_$v.go.txt $D/lang/mcache/mcache.go
    touch $D/.stamp
    fi ) 9>.work/prepare.lock
  fi
done
