#!/bin/bash
# Run once after a fresh restore, offline: builds the framework from files on disk only.
set -eu
cd "$(dirname "$0")"
export GOFLAGS=-mod=mod GOPROXY=off GOSUMDB=off GOTOOLCHAIN=local CGO_ENABLED=1
mkdir -p .work/bin evidence replays
./prepare.sh
# build once to verify the tree and to warm the build cache (std with -race / -asan is the slow part);
# checks rebuild what they need against /repo's working tree on every invocation
(cd harness && go build -o ../.work/bin/warm ./cmd/vh)
(cd harness && go build -race -o ../.work/bin/warm ./cmd/vh) || true
(cd harness && go build -asan -o ../.work/bin/warm ./cmd/vh) || true
rm -f .work/bin/warm
echo setup ok
