#!/bin/bash
# Run once after a fresh restore, offline: builds the framework from files on disk only.
set -eu
cd "$(dirname "$0")"
export GOFLAGS=-mod=mod GOPROXY=off GOSUMDB=off GOTOOLCHAIN=local CGO_ENABLED=1
mkdir -p .work/bin evidence replays
./prepare.sh
(cd harness && go build -o ../.work/bin/vh ./cmd/vh)
# warm the build cache for the instrumented flavours (race, asan std libs are the slow part)
(cd harness && go build -race -o ../.work/bin/vh-race ./cmd/vh) || true
echo setup ok
