#!/bin/bash
# Runs every check once (sequentially) and prints one line per property. Usage: ./run_all.sh [quick|thorough]
cd "$(dirname "$0")"
TIER="${1:-quick}"; rc=0
for i in $(seq -w 1 20); do
  out=$(./run.sh C$i $TIER 2>&1); r=$?
  echo "$out" | grep -E "^(SUMMARY|VIOLATION|KNOWN-FINDING|INCONCLUSIVE)" | cut -c1-220
  [ $r -ne 0 ] && rc=1
done
exit $rc
